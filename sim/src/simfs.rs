//! In-memory POSIX-like file system that stands in for std::fs behind physis' `verif_sim` seam.
//! Every call is one simulator step; how it completes (full, short, interrupted, failing,
//! in which order a directory lists) is decided here from the operation's sub-seed and the
//! scenario's explicit fault list.

use crate::alloc;
use crate::rng::{fnv1a, Rng, FNV_INIT};
use physis::vfs::{Backend, Metadata, OpenSpec};
use serde::{Deserialize, Serialize};
use std::cell::RefCell;
use std::collections::BTreeMap;
use std::ffi::OsString;
use std::io::{self, SeekFrom};
use std::os::unix::ffi::{OsStrExt, OsStringExt};
use std::path::Path;
use std::rc::Rc;

#[derive(Clone, Copy, Debug, PartialEq, Eq, PartialOrd, Ord, Serialize, Deserialize, Hash)]
pub enum Call {
    Open,
    Read,
    Write,
    Seek,
    SetLen,
    Metadata,
    ReadDir,
    CreateDirAll,
    RemoveFile,
    RemoveDirAll,
}

pub const CALLS: [Call; 10] = [
    Call::Open,
    Call::Read,
    Call::Write,
    Call::Seek,
    Call::SetLen,
    Call::Metadata,
    Call::ReadDir,
    Call::CreateDirAll,
    Call::RemoveFile,
    Call::RemoveDirAll,
];

impl Call {
    pub fn idx(self) -> usize {
        self as usize
    }
}

/// Hostile completions (cfg2 only).
#[derive(Clone, Copy, Debug, PartialEq, Eq, PartialOrd, Ord, Serialize, Deserialize, Hash)]
pub enum Hostile {
    Eio,
    Enoent,
    Eacces,
    Erofs,
    Emfile,
    Enospc,
    /// read returns 0 although data remain (file truncated under the handle)
    EarlyEof,
    /// something that is not a directory is in the way (mkdir)
    Eexist,
    /// write accepts nothing and reports Ok(0) (a target that cannot take more bytes)
    WriteZero,
}

pub const HOSTILES: [Hostile; 9] = [
    Hostile::Eio,
    Hostile::Enoent,
    Hostile::Eacces,
    Hostile::Erofs,
    Hostile::Emfile,
    Hostile::Enospc,
    Hostile::EarlyEof,
    Hostile::Eexist,
    Hostile::WriteZero,
];

impl Hostile {
    fn to_err(self) -> io::Error {
        let code = match self {
            Hostile::Eio | Hostile::EarlyEof => libc::EIO,
            Hostile::Enoent => libc::ENOENT,
            Hostile::Eacces => libc::EACCES,
            Hostile::Erofs => libc::EROFS,
            Hostile::Emfile => libc::EMFILE,
            Hostile::Enospc => libc::ENOSPC,
            Hostile::Eexist => libc::EEXIST,
            Hostile::WriteZero => libc::ENOSPC,
        };
        io::Error::from_raw_os_error(code)
    }
}

/// One hostile completion: the `nth` call (0-based) of class `call` inside operation `op`.
/// `sticky` makes every later call of that class in the same operation fail the same way.
#[derive(Clone, Debug, PartialEq, Eq, Serialize, Deserialize)]
pub struct IoFault {
    pub op: usize,
    pub call: Call,
    pub nth: u32,
    pub kind: Hostile,
    #[serde(default)]
    pub sticky: bool,
    /// only calls whose path contains this substring count (and can be hit)
    #[serde(default)]
    pub path_contains: Option<String>,
}

/// Rates of benign completions, per 256.
#[derive(Clone, Debug, Default, PartialEq, Eq, Serialize, Deserialize)]
pub struct Benign {
    pub short_read: u16,
    pub eintr_read: u16,
    pub short_write: u16,
    pub eintr_write: u16,
    pub one_byte_reads: bool,
    pub one_byte_writes: bool,
    pub permute_dirs: bool,
}

impl Benign {
    pub fn quiet() -> Benign {
        Benign::default()
    }
    pub fn is_quiet(&self) -> bool {
        *self == Benign::default()
    }
    /// Swarm draw: each dimension independently off / low / high.
    pub fn draw(r: &mut Rng) -> Benign {
        let rate = |r: &mut Rng| -> u16 {
            match r.below(4) {
                0 => 0,
                1 => 8,
                2 => 64,
                _ => 160,
            }
        };
        Benign {
            short_read: rate(r),
            eintr_read: rate(r) / 2,
            short_write: rate(r),
            eintr_write: rate(r) / 2,
            one_byte_reads: r.chance(1, 12),
            one_byte_writes: r.chance(1, 12),
            permute_dirs: r.chance(3, 4),
        }
    }
}

#[derive(Clone, Debug, PartialEq, Eq, Serialize, Deserialize)]
pub enum Mutation {
    Create,
    Truncate,
    Write,
    SetLen,
    Mkdir,
    Unlink,
    Rmtree,
}

#[derive(Clone, Debug)]
pub struct MutationRec {
    pub op: usize,
    pub kind: Mutation,
    pub path: String,
}

enum Node {
    Dir,
    File(Rc<RefCell<Vec<u8>>>),
}

struct Fd {
    path: Vec<u8>,
    data: Option<Rc<RefCell<Vec<u8>>>>,
    pos: u64,
    read: bool,
    write: bool,
    last_eintr: bool,
    watched: bool,
}

/// Completion codes that go into the schedule hash.
#[derive(Clone, Copy, Debug, PartialEq, Eq)]
#[repr(u8)]
pub enum Done {
    Ok = 0,
    Full = 1,
    Short = 2,
    Eintr = 3,
    Eof = 4,
    NaturalErr = 5,
    Hostile = 6,
    Permuted = 7,
}

pub const DONE_NAMES: [&str; 8] = [
    "ok",
    "full",
    "short",
    "eintr",
    "eof",
    "natural_error",
    "hostile",
    "permuted_dir",
];

pub struct Stats {
    /// fired[call][done]
    pub fired: [[u64; 8]; 10],
    pub hostile_fired: [u64; 9],
    pub steps: u64,
    pub sched_hash: u64,
    /// a short read/write or EINTR happened while the destination buffer was <= 16 bytes
    /// (i.e. in the middle of a header field group)
    pub split_small: u64,
}

impl Default for Stats {
    fn default() -> Self {
        Stats {
            fired: [[0; 8]; 10],
            hostile_fired: [0; 9],
            steps: 0,
            sched_hash: FNV_INIT,
            split_small: 0,
        }
    }
}

pub struct BudgetExceeded;

struct Inner {
    nodes: BTreeMap<Vec<u8>, Node>,
    fds: BTreeMap<u64, Fd>,
    next_fd: u64,
    benign: Benign,
    faults: Vec<IoFault>,
    fault_seen: Vec<u32>,
    sticky: Vec<(Call, Hostile)>,
    cur_op: usize,
    rng: Rng,
    per_op_calls: [u32; 10],
    /// short / interrupted completions so far in this operation; beyond a cap the device
    /// "catches up" and completes fully, so that huge legitimate transfers stay affordable
    op_nonfull: u32,
    op_steps: u64,
    step_budget: u64,
    pub stats: Stats,
    mutations: Vec<MutationRec>,
    trace: Option<Vec<String>>,
    trace_paused: bool,
    /// heap bytes held by the trace, reported to the allocation monitor as harness memory so
    /// that tracing cannot change a verdict
    trace_bytes: usize,
    /// per-op call counts (profile), indexed by op
    profile: Vec<[u32; 10]>,
    max_file: u64,
    storage_bytes: usize,
    open_high_water: usize,
    watch: Option<Vec<u8>>,
    watch_pos: u64,
}

pub struct SimFs {
    inner: RefCell<Inner>,
}

pub const MAX_FILE: u64 = 96 << 20;
pub const NONFULL_CAP: u32 = 200_000;

fn enoent() -> io::Error {
    io::Error::from_raw_os_error(libc::ENOENT)
}
fn enotdir() -> io::Error {
    io::Error::from_raw_os_error(libc::ENOTDIR)
}
fn eisdir() -> io::Error {
    io::Error::from_raw_os_error(libc::EISDIR)
}
fn eexist() -> io::Error {
    io::Error::from_raw_os_error(libc::EEXIST)
}
fn einval() -> io::Error {
    io::Error::from_raw_os_error(libc::EINVAL)
}
fn ebadf() -> io::Error {
    io::Error::from_raw_os_error(libc::EBADF)
}

pub fn lossy(p: &[u8]) -> String {
    String::from_utf8_lossy(p).into_owned()
}

impl Inner {
    /// Lexical + existence-checked resolution. Returns the normalised absolute key. The final
    /// component need not exist; every intermediate one must be an existing directory.
    fn resolve(&self, path: &Path) -> io::Result<Vec<u8>> {
        let bytes = path.as_os_str().as_bytes();
        if bytes.is_empty() {
            return Err(enoent());
        }
        // PATH_MAX and NAME_MAX, as on Linux
        if bytes.len() >= 4096 || bytes.split(|b| *b == b'/').any(|c| c.len() > 255) {
            return Err(io::Error::from_raw_os_error(libc::ENAMETOOLONG));
        }
        if bytes.contains(&0) {
            // std refuses paths with an interior NUL before any system call
            return Err(io::Error::new(io::ErrorKind::InvalidInput, "file name contained an unexpected NUL byte"));
        }
        let mut cur: Vec<u8> = Vec::new(); // root
        let comps: Vec<&[u8]> = bytes.split(|b| *b == b'/').filter(|c| !c.is_empty()).collect();
        let n = comps.len();
        let trailing_slash = bytes.ends_with(b"/");
        for (i, c) in comps.iter().enumerate() {
            // cur must be an existing directory before we may step through it
            match self.nodes.get(&cur) {
                Some(Node::Dir) => {}
                Some(Node::File(_)) => return Err(enotdir()),
                None => return Err(enoent()),
            }
            if *c == b"." {
                continue;
            }
            if *c == b".." {
                if let Some(pos) = cur.iter().rposition(|b| *b == b'/') {
                    cur.truncate(pos);
                }
                continue;
            }
            cur.push(b'/');
            cur.extend_from_slice(c);
            let _ = (i, n);
        }
        if trailing_slash {
            // "x/" requires x to be a directory if it exists
            if let Some(Node::File(_)) = self.nodes.get(&cur) {
                return Err(enotdir());
            }
        }
        Ok(cur)
    }

    fn parent_of(key: &[u8]) -> Vec<u8> {
        match key.iter().rposition(|b| *b == b'/') {
            Some(pos) => key[..pos].to_vec(),
            None => Vec::new(),
        }
    }

    fn children(&self, dir: &[u8]) -> Vec<Vec<u8>> {
        let mut lo = dir.to_vec();
        lo.push(b'/');
        let mut hi = dir.to_vec();
        hi.push(b'/' + 1);
        self.nodes
            .range(lo.clone()..hi)
            .filter(|(k, _)| !k[lo.len()..].contains(&b'/'))
            .map(|(k, _)| k.clone())
            .collect()
    }

    fn subtree(&self, dir: &[u8]) -> Vec<Vec<u8>> {
        let mut lo = dir.to_vec();
        lo.push(b'/');
        let mut hi = dir.to_vec();
        hi.push(b'/' + 1);
        self.nodes.range(lo..hi).map(|(k, _)| k.clone()).collect()
    }

    fn meta_of(&self, key: &[u8]) -> io::Result<Metadata> {
        match self.nodes.get(key) {
            Some(Node::Dir) => Ok(Metadata::new(true, false, 4096)),
            Some(Node::File(d)) => Ok(Metadata::new(false, true, d.borrow().len() as u64)),
            None => Err(enoent()),
        }
    }

    fn note_storage(&mut self, before: usize, after: usize) {
        if after >= before {
            self.storage_bytes += after - before;
            alloc::harness_bytes_add(after - before);
        } else {
            self.storage_bytes -= before - after;
            alloc::harness_bytes_sub(before - after);
        }
    }

    /// One step: bumps counters, enforces the step budget, and returns the hostile completion
    /// scheduled for this call, if any.
    fn step(&mut self, call: Call, path: &[u8]) -> Option<Hostile> {
        self.stats.steps += 1;
        self.op_steps += 1;
        if self.op_steps > self.step_budget {
            std::panic::panic_any(BudgetExceeded);
        }
        self.per_op_calls[call.idx()] += 1;
        if let Some((_, h)) = self.sticky.iter().find(|(c, _)| *c == call) {
            return Some(*h);
        }
        if self.faults.is_empty() {
            return None;
        }
        let cur = self.cur_op;
        let mut hit: Option<(Hostile, bool)> = None;
        for (fi, f) in self.faults.iter().enumerate() {
            if f.op != cur || f.call != call {
                continue;
            }
            if let Some(sub) = &f.path_contains {
                let sb = sub.as_bytes();
                if !path.windows(sb.len().max(1)).any(|w| w == sb) {
                    continue;
                }
            }
            let seen = self.fault_seen[fi];
            self.fault_seen[fi] += 1;
            if seen == f.nth && hit.is_none() {
                hit = Some((f.kind, f.sticky));
            }
        }
        if let Some((k, st)) = hit {
            if st {
                self.sticky.push((call, k));
            }
            return Some(k);
        }
        None
    }

    fn done(&mut self, call: Call, d: Done, what: impl FnOnce() -> String) {
        if matches!(d, Done::Short | Done::Eintr) {
            self.op_nonfull += 1;
        }
        self.stats.fired[call.idx()][d as usize] += 1;
        self.stats.sched_hash = fnv1a(self.stats.sched_hash, &[call as u8, d as u8]);
        if self.trace_paused {
            return;
        }
        if let Some(t) = self.trace.as_mut() {
            t.push(format!(
                "op{} #{} {:?} {} -> {}",
                self.cur_op,
                self.op_steps,
                call,
                what(),
                DONE_NAMES[d as usize]
            ));
            let n = t.last().map(|x| x.capacity()).unwrap_or(0) + 2 * std::mem::size_of::<String>();
            self.trace_bytes += n;
            alloc::harness_bytes_add(n);
        }
    }

    fn hostile(&mut self, call: Call, h: Hostile, what: impl FnOnce() -> String) -> io::Error {
        self.stats.hostile_fired[HOSTILES.iter().position(|x| *x == h).unwrap()] += 1;
        self.stats.fired[call.idx()][Done::Hostile as usize] += 1;
        self.stats.sched_hash = fnv1a(self.stats.sched_hash, &[call as u8, 0x80 | h as u8]);
        if self.trace_paused {
            return h.to_err();
        }
        if let Some(t) = self.trace.as_mut() {
            t.push(format!(
                "op{} #{} {:?} {} -> HOSTILE {:?}",
                self.cur_op,
                self.op_steps,
                call,
                what(),
                h
            ));
            let n = t.last().map(|x| x.capacity()).unwrap_or(0) + 2 * std::mem::size_of::<String>();
            self.trace_bytes += n;
            alloc::harness_bytes_add(n);
        }
        h.to_err()
    }

    /// POSIX mkdir(2).
    fn mkdir(&mut self, path: &Path) -> io::Result<()> {
        // mkdir("x/") is mkdir("x")
        let b = path.as_os_str().as_bytes();
        let mut n = b.len();
        while n > 1 && b[n - 1] == b'/' {
            n -= 1;
        }
        let key = self.resolve(Path::new(std::ffi::OsStr::from_bytes(&b[..n])))?;
        if self.nodes.contains_key(&key) {
            return Err(eexist());
        }
        let parent = Inner::parent_of(&key);
        match self.nodes.get(&parent) {
            Some(Node::Dir) => {}
            Some(Node::File(_)) => return Err(enotdir()),
            None => return Err(enoent()),
        }
        self.nodes.insert(key.clone(), Node::Dir);
        self.mutated(Mutation::Mkdir, &key);
        Ok(())
    }

    fn is_dir(&self, path: &Path) -> bool {
        match self.resolve(path) {
            Ok(k) => matches!(self.nodes.get(&k), Some(Node::Dir)),
            Err(_) => false,
        }
    }

    /// The algorithm of std::fs::DirBuilder::create_dir_all, over mkdir above.
    fn mkdir_all(&mut self, path: &Path) -> io::Result<()> {
        if path == Path::new("") {
            return Ok(());
        }
        match self.mkdir(path) {
            Ok(()) => return Ok(()),
            Err(ref e) if e.kind() == io::ErrorKind::NotFound => {}
            Err(_) if self.is_dir(path) => return Ok(()),
            Err(e) => return Err(e),
        }
        match path.parent() {
            Some(p) => self.mkdir_all(p)?,
            None => return Err(io::Error::new(io::ErrorKind::Other, "failed to create whole tree")),
        }
        match self.mkdir(path) {
            Ok(()) => Ok(()),
            Err(_) if self.is_dir(path) => Ok(()),
            Err(e) => Err(e),
        }
    }

    fn mutated(&mut self, kind: Mutation, key: &[u8]) {
        let op = self.cur_op;
        // one record per run of identical mutations (a 64 KiB wipe at one byte per write would
        // otherwise grow the harness' own heap by megabytes inside the measured operation)
        if let Some(last) = self.mutations.last() {
            if last.op == op && last.kind == kind && last.path.as_bytes() == key {
                return;
            }
        }
        self.mutations.push(MutationRec {
            op,
            kind,
            path: lossy(key),
        });
    }
}

impl SimFs {
    pub fn new() -> Rc<SimFs> {
        let mut nodes = BTreeMap::new();
        nodes.insert(Vec::new(), Node::Dir);
        Rc::new(SimFs {
            inner: RefCell::new(Inner {
                nodes,
                fds: BTreeMap::new(),
                next_fd: 3,
                benign: Benign::quiet(),
                faults: vec![],
                fault_seen: vec![],
                sticky: vec![],
                cur_op: 0,
                rng: Rng::new(0),
                per_op_calls: [0; 10],
                op_nonfull: 0,
                op_steps: 0,
                step_budget: u64::MAX,
                stats: Stats::default(),
                mutations: vec![],
                trace: None,
                trace_paused: false,
                trace_bytes: 0,
                profile: vec![],
                max_file: MAX_FILE,
                storage_bytes: 0,
                open_high_water: 0,
                watch: None,
                watch_pos: 0,
            }),
        })
    }

    // ---------- harness-side API (never counted as steps) ----------

    pub fn set_policy(&self, benign: Benign, faults: Vec<IoFault>) {
        let mut i = self.inner.borrow_mut();
        i.benign = benign;
        i.fault_seen = vec![0; faults.len()];
        i.faults = faults;
    }

    pub fn enable_trace(&self) {
        self.inner.borrow_mut().trace = Some(vec![]);
    }

    /// Logging must not perturb measurements: the leak monitor pauses the trace while it
    /// compares live bytes.
    pub fn pause_trace(&self, paused: bool) {
        self.inner.borrow_mut().trace_paused = paused;
    }

    pub fn take_trace(&self) -> Vec<String> {
        let mut i = self.inner.borrow_mut();
        alloc::harness_bytes_sub(i.trace_bytes);
        i.trace_bytes = 0;
        i.trace.take().unwrap_or_default()
    }

    /// Starts operation `op`; all completion choices inside it come from `sub_seed`.
    pub fn begin_op(&self, op: usize, sub_seed: u64, step_budget: u64) {
        let mut i = self.inner.borrow_mut();
        i.cur_op = op;
        i.rng = Rng::new(sub_seed);
        i.per_op_calls = [0; 10];
        i.op_nonfull = 0;
        i.op_steps = 0;
        i.step_budget = step_budget;
        i.sticky.clear();
        for x in i.fault_seen.iter_mut() {
            *x = 0;
        }
    }

    /// Ends the operation and records its call profile.
    pub fn end_op(&self) -> [u32; 10] {
        let mut i = self.inner.borrow_mut();
        let p = i.per_op_calls;
        let op = i.cur_op;
        if i.profile.len() <= op {
            i.profile.resize(op + 1, [0; 10]);
        }
        i.profile[op] = p;
        i.step_budget = u64::MAX;
        i.sticky.clear();
        p
    }

    pub fn profile(&self) -> Vec<[u32; 10]> {
        self.inner.borrow().profile.clone()
    }

    pub fn stats<R>(&self, f: impl FnOnce(&Stats) -> R) -> R {
        f(&self.inner.borrow().stats)
    }

    /// Remember how far reads of `path` have got (used to name the chunk in flight).
    pub fn watch(&self, path: &str) {
        let mut i = self.inner.borrow_mut();
        i.watch = Some(Self::key(path));
        i.watch_pos = 0;
    }

    pub fn watch_pos(&self) -> u64 {
        self.inner.borrow().watch_pos
    }

    pub fn open_fds(&self) -> usize {
        self.inner.borrow().fds.len()
    }

    pub fn open_high_water(&self) -> usize {
        self.inner.borrow().open_high_water
    }

    pub fn mutations(&self) -> Vec<MutationRec> {
        self.inner.borrow().mutations.clone()
    }

    pub fn clear_mutations(&self) {
        self.inner.borrow_mut().mutations.clear();
    }

    fn key(path: &str) -> Vec<u8> {
        let mut out = Vec::new();
        for c in path.as_bytes().split(|b| *b == b'/').filter(|c| !c.is_empty()) {
            out.push(b'/');
            out.extend_from_slice(c);
        }
        out
    }

    pub fn h_mkdirs(&self, path: &str) {
        self.h_mkdirs_bytes(&Self::key(path));
    }

    pub fn h_mkdirs_bytes(&self, key: &[u8]) {
        let mut i = self.inner.borrow_mut();
        let mut cur = Vec::new();
        for c in key.split(|b| *b == b'/').filter(|c| !c.is_empty()) {
            cur.push(b'/');
            cur.extend_from_slice(c);
            if !i.nodes.contains_key(&cur) {
                i.nodes.insert(cur.clone(), Node::Dir);
            }
        }
    }

    pub fn h_write(&self, path: &str, data: Vec<u8>) {
        let key = Self::key(path);
        self.h_write_bytes(&key, data);
    }

    pub fn h_write_bytes(&self, key: &[u8], data: Vec<u8>) {
        let parent = Inner::parent_of(key);
        self.h_mkdirs_bytes(&parent);
        let mut i = self.inner.borrow_mut();
        let before = match i.nodes.get(key) {
            Some(Node::File(d)) => d.borrow().capacity(),
            _ => 0,
        };
        let after = data.capacity();
        match i.nodes.get(key) {
            Some(Node::File(d)) => {
                *d.borrow_mut() = data;
            }
            _ => {
                i.nodes
                    .insert(key.to_vec(), Node::File(Rc::new(RefCell::new(data))));
            }
        }
        i.note_storage(before, after);
    }

    pub fn h_read(&self, path: &str) -> Option<Vec<u8>> {
        let i = self.inner.borrow();
        match i.nodes.get(&Self::key(path)) {
            Some(Node::File(d)) => Some(d.borrow().clone()),
            _ => None,
        }
    }

    pub fn h_len(&self, path: &str) -> Option<usize> {
        let i = self.inner.borrow();
        match i.nodes.get(&Self::key(path)) {
            Some(Node::File(d)) => Some(d.borrow().len()),
            _ => None,
        }
    }

    pub fn h_is_dir(&self, path: &str) -> bool {
        matches!(self.inner.borrow().nodes.get(&Self::key(path)), Some(Node::Dir))
    }

    pub fn h_exists(&self, path: &str) -> bool {
        self.inner.borrow().nodes.contains_key(&Self::key(path))
    }

    pub fn h_remove(&self, path: &str) {
        let key = Self::key(path);
        let mut i = self.inner.borrow_mut();
        let mut doomed = i.subtree(&key);
        doomed.push(key);
        for k in doomed {
            if let Some(Node::File(d)) = i.nodes.remove(&k) {
                let cap = d.borrow().capacity();
                i.note_storage(cap, 0);
            }
        }
    }

    /// Modify a stored file in place (at-rest storage fault).
    pub fn h_modify(&self, path: &str, f: impl FnOnce(&mut Vec<u8>)) -> bool {
        let key = Self::key(path);
        let mut i = self.inner.borrow_mut();
        let d = match i.nodes.get(&key) {
            Some(Node::File(d)) => d.clone(),
            _ => return false,
        };
        let before = d.borrow().capacity();
        f(&mut d.borrow_mut());
        let after = d.borrow().capacity();
        i.note_storage(before, after);
        true
    }

    /// Whole tree under `prefix` as path (relative to prefix) -> Some(bytes) | None for a directory.
    pub fn snapshot(&self, prefix: &str) -> BTreeMap<String, Option<Vec<u8>>> {
        let key = Self::key(prefix);
        let i = self.inner.borrow();
        let mut out = BTreeMap::new();
        for k in i.subtree(&key) {
            let rel = lossy(&k[key.len() + 1..]);
            match i.nodes.get(&k) {
                Some(Node::File(d)) => {
                    out.insert(rel, Some(d.borrow().clone()));
                }
                Some(Node::Dir) => {
                    out.insert(rel, None);
                }
                None => {}
            }
        }
        out
    }

    /// Cheap structural digest of the subtree (paths, kinds, lengths, content hash).
    pub fn digest(&self, prefix: &str) -> u64 {
        let key = Self::key(prefix);
        let i = self.inner.borrow();
        let mut h = FNV_INIT;
        for k in i.subtree(&key) {
            h = fnv1a(h, &k);
            match i.nodes.get(&k) {
                Some(Node::File(d)) => {
                    h = fnv1a(h, &[1]);
                    h = fnv1a(h, &d.borrow());
                }
                _ => h = fnv1a(h, &[2]),
            }
        }
        h
    }

    pub fn total_file_bytes(&self, prefix: &str) -> u64 {
        let key = Self::key(prefix);
        let i = self.inner.borrow();
        let mut n = 0u64;
        for k in i.subtree(&key) {
            if let Some(Node::File(d)) = i.nodes.get(&k) {
                n += d.borrow().len() as u64;
            }
        }
        n
    }
}

struct Guard;
impl Guard {
    fn new() -> Guard {
        alloc::enter_harness();
        Guard
    }
}
impl Drop for Guard {
    fn drop(&mut self) {
        alloc::leave_harness();
    }
}

impl Backend for SimFs {
    fn open(&self, path: &Path, spec: &OpenSpec) -> io::Result<u64> {
        let _g = Guard::new();
        let mut i = self.inner.borrow_mut();
        let what = || format!("{} {}", path.display(), flags(spec));
        if let Some(h) = i.step(Call::Open, path.as_os_str().as_bytes()) {
            return Err(i.hostile(Call::Open, h, what));
        }
        let key = match i.resolve(path) {
            Ok(k) => k,
            Err(e) => {
                // Linux: O_CREAT on "file/" is EISDIR, without O_CREAT it is ENOTDIR
                let e = if spec.create && e.raw_os_error() == Some(libc::ENOTDIR) && path.as_os_str().as_bytes().ends_with(b"/") {
                    let trimmed: Vec<u8> = {
                        let b = path.as_os_str().as_bytes();
                        let mut n = b.len();
                        while n > 1 && b[n - 1] == b'/' {
                            n -= 1;
                        }
                        b[..n].to_vec()
                    };
                    match i.resolve(Path::new(std::ffi::OsStr::from_bytes(&trimmed))) {
                        Ok(k) if matches!(i.nodes.get(&k), Some(Node::File(_))) => eisdir(),
                        _ => e,
                    }
                } else {
                    e
                };
                i.done(Call::Open, Done::NaturalErr, what);
                return Err(e);
            }
        };
        let wants_write = spec.write || spec.truncate || spec.create;
        let existing = match i.nodes.get(&key) {
            Some(Node::Dir) => Some(None),
            Some(Node::File(d)) => Some(Some(d.clone())),
            None => None,
        };
        let data = match existing {
            Some(None) => {
                if wants_write {
                    i.done(Call::Open, Done::NaturalErr, what);
                    return Err(eisdir());
                }
                None
            }
            Some(Some(d)) => {
                if spec.truncate && spec.write {
                    let before = d.borrow().capacity();
                    d.borrow_mut().clear();
                    d.borrow_mut().shrink_to_fit();
                    i.note_storage(before, 0);
                    i.mutated(Mutation::Truncate, &key);
                }
                Some(d)
            }
            None => {
                if !(spec.create && spec.write) {
                    i.done(Call::Open, Done::NaturalErr, what);
                    return Err(enoent());
                }
                // parent must be an existing directory (resolve checked all but the last step)
                let parent = Inner::parent_of(&key);
                match i.nodes.get(&parent) {
                    Some(Node::Dir) => {}
                    Some(Node::File(_)) => {
                        i.done(Call::Open, Done::NaturalErr, what);
                        return Err(enotdir());
                    }
                    None => {
                        i.done(Call::Open, Done::NaturalErr, what);
                        return Err(enoent());
                    }
                }
                if path.as_os_str().as_bytes().ends_with(b"/") {
                    i.done(Call::Open, Done::NaturalErr, what);
                    return Err(eisdir());
                }
                let d = Rc::new(RefCell::new(Vec::new()));
                i.nodes.insert(key.clone(), Node::File(d.clone()));
                i.mutated(Mutation::Create, &key);
                Some(d)
            }
        };
        let fd = i.next_fd;
        i.next_fd += 1;
        let watched = i.watch.as_deref() == Some(&key[..]);
        i.fds.insert(
            fd,
            Fd {
                watched,
                path: key,
                data,
                pos: 0,
                read: spec.read,
                write: spec.write,
                last_eintr: false,
            },
        );
        let n = i.fds.len();
        if n > i.open_high_water {
            i.open_high_water = n;
        }
        i.done(Call::Open, Done::Ok, what);
        Ok(fd)
    }

    fn close(&self, fd: u64) {
        let _g = Guard::new();
        self.inner.borrow_mut().fds.remove(&fd);
    }

    fn read(&self, fd: u64, buf: &mut [u8]) -> io::Result<usize> {
        let _g = Guard::new();
        let mut i = self.inner.borrow_mut();
        let blen = buf.len();
        let fpath: Vec<u8> = if i.faults.is_empty() {
            Vec::new()
        } else {
            i.fds.get(&fd).map(|f| f.path.clone()).unwrap_or_default()
        };
        let hostile = i.step(Call::Read, &fpath);
        let (data, pos, can_read, last_eintr, path) = match i.fds.get(&fd) {
            Some(f) => (f.data.clone(), f.pos, f.read, f.last_eintr, f.path.clone()),
            None => return Err(ebadf()),
        };
        let what = || format!("{} @{} len {}", lossy(&path), pos, blen);
        if let Some(h) = hostile {
            let e = i.hostile(Call::Read, h, what);
            if h == Hostile::EarlyEof {
                return Ok(0);
            }
            return Err(e);
        }
        let data = match data {
            Some(d) => d,
            None => {
                i.done(Call::Read, Done::NaturalErr, what);
                return Err(eisdir());
            }
        };
        if !can_read {
            i.done(Call::Read, Done::NaturalErr, what);
            return Err(ebadf());
        }
        let d = data.borrow();
        let avail = if (pos as usize as u64) == pos && (pos as usize) < d.len() {
            (d.len() - pos as usize).min(blen)
        } else {
            0
        };
        if avail == 0 {
            drop(d);
            i.done(Call::Read, Done::Eof, what);
            return Ok(0);
        }
        let b = if i.op_nonfull > NONFULL_CAP { Benign::quiet() } else { i.benign.clone() };
        if !last_eintr && b.eintr_read > 0 && i.rng.below(256) < b.eintr_read as u64 {
            i.fds.get_mut(&fd).unwrap().last_eintr = true;
            if blen <= 16 {
                i.stats.split_small += 1;
            }
            drop(d);
            i.done(Call::Read, Done::Eintr, what);
            return Err(io::Error::from_raw_os_error(libc::EINTR));
        }
        let mut n = avail;
        let mut short = false;
        if avail > 1 {
            if b.one_byte_reads {
                n = 1;
                short = true;
            } else if b.short_read > 0 && i.rng.below(256) < b.short_read as u64 {
                n = if i.rng.chance(1, 3) {
                    1
                } else {
                    i.rng.range(1, avail as u64 - 1) as usize
                };
                short = true;
            }
        }
        buf[..n].copy_from_slice(&d[pos as usize..pos as usize + n]);
        drop(d);
        let f = i.fds.get_mut(&fd).unwrap();
        f.pos += n as u64;
        f.last_eintr = false;
        if f.watched {
            let p = f.pos;
            i.watch_pos = p;
        }
        if short && blen <= 16 {
            i.stats.split_small += 1;
        }
        i.done(
            Call::Read,
            if short { Done::Short } else { Done::Full },
            what,
        );
        Ok(n)
    }

    fn write(&self, fd: u64, buf: &[u8]) -> io::Result<usize> {
        let _g = Guard::new();
        let mut i = self.inner.borrow_mut();
        let blen = buf.len();
        let fpath: Vec<u8> = if i.faults.is_empty() {
            Vec::new()
        } else {
            i.fds.get(&fd).map(|f| f.path.clone()).unwrap_or_default()
        };
        let hostile = i.step(Call::Write, &fpath);
        let (data, pos, can_write, last_eintr, path) = match i.fds.get(&fd) {
            Some(f) => (f.data.clone(), f.pos, f.write, f.last_eintr, f.path.clone()),
            None => return Err(ebadf()),
        };
        let what = || format!("{} @{} len {}", lossy(&path), pos, blen);
        if let Some(h) = hostile {
            let e = i.hostile(Call::Write, h, what);
            if h == Hostile::WriteZero && blen > 0 {
                return Ok(0);
            }
            return Err(e);
        }
        let data = match data {
            Some(d) if can_write => d,
            _ => {
                i.done(Call::Write, Done::NaturalErr, what);
                return Err(ebadf());
            }
        };
        if blen == 0 {
            i.done(Call::Write, Done::Full, what);
            return Ok(0);
        }
        if pos.saturating_add(blen as u64) > i.max_file {
            // the simulated disk is finite
            i.done(Call::Write, Done::NaturalErr, what);
            return Err(io::Error::from_raw_os_error(libc::ENOSPC));
        }
        let b = if i.op_nonfull > NONFULL_CAP { Benign::quiet() } else { i.benign.clone() };
        if !last_eintr && b.eintr_write > 0 && i.rng.below(256) < b.eintr_write as u64 {
            i.fds.get_mut(&fd).unwrap().last_eintr = true;
            i.done(Call::Write, Done::Eintr, what);
            return Err(io::Error::from_raw_os_error(libc::EINTR));
        }
        let mut n = blen;
        let mut short = false;
        if blen > 1 {
            if b.one_byte_writes {
                n = 1;
                short = true;
            } else if b.short_write > 0 && i.rng.below(256) < b.short_write as u64 {
                n = if i.rng.chance(1, 3) {
                    1
                } else {
                    i.rng.range(1, blen as u64 - 1) as usize
                };
                short = true;
            }
        }
        {
            let mut d = data.borrow_mut();
            let before = d.capacity();
            let end = pos as usize + n;
            if d.len() < end {
                d.resize(end, 0);
            }
            d[pos as usize..end].copy_from_slice(&buf[..n]);
            let after = d.capacity();
            drop(d);
            i.note_storage(before, after);
        }
        let f = i.fds.get_mut(&fd).unwrap();
        f.pos += n as u64;
        f.last_eintr = false;
        i.mutated(Mutation::Write, &path);
        i.done(
            Call::Write,
            if short { Done::Short } else { Done::Full },
            what,
        );
        Ok(n)
    }

    fn seek(&self, fd: u64, pos: SeekFrom) -> io::Result<u64> {
        let _g = Guard::new();
        let mut i = self.inner.borrow_mut();
        let fpath: Vec<u8> = if i.faults.is_empty() {
            Vec::new()
        } else {
            i.fds.get(&fd).map(|f| f.path.clone()).unwrap_or_default()
        };
        let hostile = i.step(Call::Seek, &fpath);
        let (len, cur, path) = match i.fds.get(&fd) {
            Some(f) => (
                f.data.as_ref().map(|d| d.borrow().len() as u64).unwrap_or(0),
                f.pos,
                f.path.clone(),
            ),
            None => return Err(ebadf()),
        };
        let what = || format!("{} {:?}", lossy(&path), pos);
        if let Some(h) = hostile {
            return Err(i.hostile(Call::Seek, h, what));
        }
        let target: Option<u64> = match pos {
            SeekFrom::Start(n) => {
                if n > i64::MAX as u64 {
                    None
                } else {
                    Some(n)
                }
            }
            SeekFrom::Current(d) => (cur as i128 + d as i128)
                .try_into()
                .ok()
                .filter(|v: &u64| *v <= i64::MAX as u64),
            SeekFrom::End(d) => (len as i128 + d as i128)
                .try_into()
                .ok()
                .filter(|v: &u64| *v <= i64::MAX as u64),
        };
        match target {
            Some(t) => {
                i.fds.get_mut(&fd).unwrap().pos = t;
                i.done(Call::Seek, Done::Ok, what);
                Ok(t)
            }
            None => {
                i.done(Call::Seek, Done::NaturalErr, what);
                Err(einval())
            }
        }
    }

    fn set_len(&self, fd: u64, len: u64) -> io::Result<()> {
        let _g = Guard::new();
        let mut i = self.inner.borrow_mut();
        let fpath: Vec<u8> = if i.faults.is_empty() {
            Vec::new()
        } else {
            i.fds.get(&fd).map(|f| f.path.clone()).unwrap_or_default()
        };
        let hostile = i.step(Call::SetLen, &fpath);
        let (data, can_write, path) = match i.fds.get(&fd) {
            Some(f) => (f.data.clone(), f.write, f.path.clone()),
            None => return Err(ebadf()),
        };
        let what = || format!("{} {}", lossy(&path), len);
        if let Some(h) = hostile {
            return Err(i.hostile(Call::SetLen, h, what));
        }
        let data = match data {
            Some(d) if can_write => d,
            _ => {
                i.done(Call::SetLen, Done::NaturalErr, what);
                return Err(einval());
            }
        };
        if len > i.max_file {
            i.done(Call::SetLen, Done::NaturalErr, what);
            return Err(io::Error::from_raw_os_error(libc::EFBIG));
        }
        let before = data.borrow().capacity();
        data.borrow_mut().resize(len as usize, 0);
        if len == 0 {
            data.borrow_mut().shrink_to_fit();
        }
        let after = data.borrow().capacity();
        i.note_storage(before, after);
        i.mutated(Mutation::SetLen, &path);
        i.done(Call::SetLen, Done::Ok, what);
        Ok(())
    }

    fn metadata(&self, path: &Path) -> io::Result<Metadata> {
        let _g = Guard::new();
        let mut i = self.inner.borrow_mut();
        let what = || format!("{}", path.display());
        if let Some(h) = i.step(Call::Metadata, path.as_os_str().as_bytes()) {
            return Err(i.hostile(Call::Metadata, h, what));
        }
        let r = i.resolve(path).and_then(|k| i.meta_of(&k));
        i.done(
            Call::Metadata,
            if r.is_ok() { Done::Ok } else { Done::NaturalErr },
            what,
        );
        r
    }

    fn read_dir(&self, path: &Path) -> io::Result<Vec<(OsString, io::Result<Metadata>)>> {
        let _g = Guard::new();
        let mut i = self.inner.borrow_mut();
        let what = || format!("{}", path.display());
        if let Some(h) = i.step(Call::ReadDir, path.as_os_str().as_bytes()) {
            return Err(i.hostile(Call::ReadDir, h, what));
        }
        let key = match i.resolve(path) {
            Ok(k) => k,
            Err(e) => {
                i.done(Call::ReadDir, Done::NaturalErr, what);
                return Err(e);
            }
        };
        match i.nodes.get(&key) {
            Some(Node::Dir) => {}
            Some(Node::File(_)) => {
                i.done(Call::ReadDir, Done::NaturalErr, what);
                return Err(enotdir());
            }
            None => {
                i.done(Call::ReadDir, Done::NaturalErr, what);
                return Err(enoent());
            }
        }
        let mut kids = i.children(&key);
        let mut permuted = false;
        if i.benign.permute_dirs && kids.len() > 1 {
            let before = kids.clone();
            let mut r = i.rng.clone();
            r.shuffle(&mut kids);
            i.rng = r;
            permuted = kids != before;
        }
        let out: Vec<(OsString, io::Result<Metadata>)> = kids
            .into_iter()
            .map(|k| {
                let name = OsString::from_vec(k[key.len() + 1..].to_vec());
                let m = i.meta_of(&k);
                (name, m)
            })
            .collect();
        i.done(
            Call::ReadDir,
            if permuted { Done::Permuted } else { Done::Ok },
            what,
        );
        Ok(out)
    }

    fn create_dir_all(&self, path: &Path) -> io::Result<()> {
        let _g = Guard::new();
        let mut i = self.inner.borrow_mut();
        let what = || format!("{}", path.display());
        if let Some(h) = i.step(Call::CreateDirAll, path.as_os_str().as_bytes()) {
            return Err(i.hostile(Call::CreateDirAll, h, what));
        }
        let r = i.mkdir_all(path);
        i.done(Call::CreateDirAll, if r.is_ok() { Done::Ok } else { Done::NaturalErr }, what);
        r
    }

    fn remove_file(&self, path: &Path) -> io::Result<()> {
        let _g = Guard::new();
        let mut i = self.inner.borrow_mut();
        let what = || format!("{}", path.display());
        if let Some(h) = i.step(Call::RemoveFile, path.as_os_str().as_bytes()) {
            return Err(i.hostile(Call::RemoveFile, h, what));
        }
        let key = match i.resolve(path) {
            Ok(k) => k,
            Err(e) => {
                i.done(Call::RemoveFile, Done::NaturalErr, what);
                return Err(e);
            }
        };
        let state = match i.nodes.get(&key) {
            Some(Node::File(_)) => 0,
            Some(Node::Dir) => 1,
            None => 2,
        };
        match state {
            0 => {
                if let Some(Node::File(d)) = i.nodes.remove(&key) {
                    if Rc::strong_count(&d) == 1 {
                        let cap = d.borrow().capacity();
                        i.note_storage(cap, 0);
                    }
                }
                i.mutated(Mutation::Unlink, &key);
                i.done(Call::RemoveFile, Done::Ok, what);
                Ok(())
            }
            1 => {
                i.done(Call::RemoveFile, Done::NaturalErr, what);
                Err(eisdir())
            }
            _ => {
                i.done(Call::RemoveFile, Done::NaturalErr, what);
                Err(enoent())
            }
        }
    }

    fn remove_dir_all(&self, path: &Path) -> io::Result<()> {
        let _g = Guard::new();
        let mut i = self.inner.borrow_mut();
        let what = || format!("{}", path.display());
        if let Some(h) = i.step(Call::RemoveDirAll, path.as_os_str().as_bytes()) {
            // a failing recursive removal has usually removed part of the tree already
            if let Ok(key) = i.resolve(path) {
                let kids = i.subtree(&key);
                let files: Vec<Vec<u8>> = kids
                    .into_iter()
                    .filter(|k| matches!(i.nodes.get(k), Some(Node::File(_))))
                    .collect();
                let n = files.len() / 2;
                for k in files.into_iter().take(n) {
                    i.nodes.remove(&k);
                    i.mutated(Mutation::Unlink, &k);
                }
            }
            return Err(i.hostile(Call::RemoveDirAll, h, what));
        }
        let key = match i.resolve(path) {
            Ok(k) => k,
            Err(e) => {
                i.done(Call::RemoveDirAll, Done::NaturalErr, what);
                return Err(e);
            }
        };
        if !i.nodes.contains_key(&key) {
            i.done(Call::RemoveDirAll, Done::NaturalErr, what);
            return Err(enoent());
        }
        if key.is_empty() {
            i.done(Call::RemoveDirAll, Done::NaturalErr, what);
            return Err(einval());
        }
        if matches!(i.nodes.get(&key), Some(Node::File(_))) {
            // std::fs::remove_dir_all refuses a regular file
            i.done(Call::RemoveDirAll, Done::NaturalErr, what);
            return Err(enotdir());
        }
        let last_is_dot = path
            .as_os_str()
            .as_bytes()
            .split(|b| *b == b'/')
            .filter(|c| !c.is_empty())
            .last()
            .map(|c| c == b".")
            .unwrap_or(false);
        let mut doomed = i.subtree(&key);
        if last_is_dot {
            // the contents go, then rmdir(".") fails with EINVAL
            for k in doomed {
                if let Some(Node::File(d)) = i.nodes.remove(&k) {
                    if Rc::strong_count(&d) == 1 {
                        let cap = d.borrow().capacity();
                        i.note_storage(cap, 0);
                    }
                }
            }
            i.mutated(Mutation::Rmtree, &key);
            i.done(Call::RemoveDirAll, Done::NaturalErr, what);
            return Err(einval());
        }
        doomed.push(key.clone());
        for k in doomed {
            if let Some(Node::File(d)) = i.nodes.remove(&k) {
                if Rc::strong_count(&d) == 1 {
                    let cap = d.borrow().capacity();
                    i.note_storage(cap, 0);
                }
            }
        }
        i.mutated(Mutation::Rmtree, &key);
        i.done(Call::RemoveDirAll, Done::Ok, what);
        Ok(())
    }
}

fn flags(spec: &OpenSpec) -> String {
    let mut s = String::new();
    if spec.read {
        s.push('r');
    }
    if spec.write {
        s.push('w');
    }
    if spec.create {
        s.push('c');
    }
    if spec.truncate {
        s.push('t');
    }
    s
}

impl Drop for SimFs {
    fn drop(&mut self) {
        let i = self.inner.borrow();
        alloc::harness_bytes_sub(i.storage_bytes);
    }
}
