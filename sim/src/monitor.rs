//! Crash monitors: panic capture (M1), signatures that survive line-number drift.

use crate::alloc;
use crate::rng::{fnv1a, FNV_INIT};
use crate::simfs::BudgetExceeded;
use std::cell::RefCell;
use std::collections::HashMap;
use std::panic::{self, AssertUnwindSafe};

pub const REPO: &str = "/repo/";

#[derive(Clone, Debug, Default)]
pub struct Frame {
    /// path relative to /repo, e.g. src/patch.rs
    pub file: String,
    pub line: u32,
    pub func: String,
    pub text_hash: u64,
}

impl Frame {
    pub fn sig(&self) -> String {
        format!("{}:{}:{:08x}", self.file, self.func, self.text_hash as u32)
    }
    pub fn human(&self) -> String {
        format!("{}:{} ({})", self.file, self.line, self.func)
    }
}

#[derive(Clone, Debug)]
pub struct PanicRec {
    pub message: String,
    pub frame: Frame,
}

#[derive(Debug)]
pub enum Caught {
    Panic(PanicRec),
    Budget,
}

thread_local! {
    static LAST: RefCell<Option<PanicRec>> = const { RefCell::new(None) };
    static SOURCES: RefCell<HashMap<String, Vec<String>>> = RefCell::new(HashMap::new());
    static QUIET: RefCell<bool> = const { RefCell::new(true) };
    static IN_GUARD: RefCell<u32> = const { RefCell::new(0) };
}

fn source_lines(rel: &str) -> Vec<String> {
    SOURCES.with(|s| {
        let mut s = s.borrow_mut();
        if let Some(v) = s.get(rel) {
            return v.clone();
        }
        let v: Vec<String> = std::fs::read_to_string(format!("{}{}", REPO, rel))
            .map(|t| t.lines().map(|l| l.to_string()).collect())
            .unwrap_or_default();
        s.insert(rel.to_string(), v.clone());
        v
    })
}

pub fn frame_for(rel_file: &str, line: u32) -> Frame {
    let lines = source_lines(rel_file);
    let idx = (line as usize).saturating_sub(1);
    let text = lines.get(idx).map(|s| s.trim()).unwrap_or("");
    let mut func = String::from("?");
    let mut i = idx.min(lines.len().saturating_sub(1));
    loop {
        if let Some(l) = lines.get(i) {
            if let Some(pos) = l.find("fn ") {
                let before_ok = pos == 0
                    || !l.as_bytes()[pos - 1].is_ascii_alphanumeric() && l.as_bytes()[pos - 1] != b'_';
                let t = l.trim_start();
                if before_ok && !t.starts_with("//") {
                    let name: String = l[pos + 3..]
                        .chars()
                        .take_while(|c| c.is_alphanumeric() || *c == '_')
                        .collect();
                    if !name.is_empty() {
                        func = name;
                        break;
                    }
                }
            }
        }
        if i == 0 {
            break;
        }
        i -= 1;
    }
    Frame {
        file: rel_file.to_string(),
        line,
        func,
        text_hash: fnv1a(FNV_INIT, text.as_bytes()),
    }
}

/// First frame of a rendered backtrace whose source lies under /repo/src.
pub fn innermost_physis_frame(bt: &str) -> Option<Frame> {
    for l in bt.lines() {
        let t = l.trim();
        if let Some(rest) = t.strip_prefix("at ") {
            if let Some(p) = rest.find("/repo/src/") {
                let loc = &rest[p + REPO.len()..];
                let mut parts = loc.split(':');
                let file = parts.next()?;
                let line: u32 = parts.next()?.parse().ok()?;
                return Some(frame_for(file, line));
            }
        }
    }
    None
}

pub fn innermost_physis_frame_now() -> String {
    let bt = std::backtrace::Backtrace::force_capture().to_string();
    match innermost_physis_frame(&bt) {
        Some(f) => format!("{}@{}", f.sig(), f.line),
        None => "?".to_string(),
    }
}

/// Message with every number (decimal or hex, with trailing alphanumerics) replaced by N,
/// back-quoted values by _, whitespace collapsed, cut at 34 characters: stable across inputs that reach the same site.
pub fn normalise_message(m: &str) -> String {
    let mut out = String::new();
    let mut chars = m.chars().peekable();
    let mut last_space = false;
    while let Some(c) = chars.next() {
        if c == '`' {
            // quoted values vary with the input
            for n in chars.by_ref() {
                if n == '`' {
                    break;
                }
            }
            out.push('_');
            last_space = false;
        } else if c.is_ascii_digit() {
            while let Some(n) = chars.peek() {
                if n.is_ascii_alphanumeric() {
                    chars.next();
                } else {
                    break;
                }
            }
            out.push('N');
            last_space = false;
        } else if c.is_whitespace() {
            if !last_space {
                out.push(' ');
            }
            last_space = true;
        } else {
            out.push(c);
            last_space = false;
        }
        if out.len() >= 34 {
            break;
        }
    }
    out.trim_end().to_string()
}

pub fn install_hook() {
    panic::set_hook(Box::new(|info| {
        alloc::enter_harness();
        if info.payload().downcast_ref::<BudgetExceeded>().is_some() {
            alloc::leave_harness();
            return;
        }
        let message = if let Some(s) = info.payload().downcast_ref::<&str>() {
            s.to_string()
        } else if let Some(s) = info.payload().downcast_ref::<String>() {
            s.clone()
        } else {
            "<non-string panic>".to_string()
        };
        let mut frame = None;
        if let Some(loc) = info.location() {
            let f = loc.file();
            if let Some(p) = f.find("/repo/src/") {
                frame = Some(frame_for(&f[p + REPO.len()..], loc.line()));
            } else if f.starts_with("src/") && std::path::Path::new(&format!("{}{}", REPO, f)).exists() {
                // relative location; only trust it if the backtrace agrees below
            }
        }
        if frame.is_none() {
            let bt = std::backtrace::Backtrace::force_capture().to_string();
            frame = innermost_physis_frame(&bt);
        }
        let rec = PanicRec {
            message: message.clone(),
            frame: frame.unwrap_or_default(),
        };
        let quiet = QUIET.with(|q| *q.borrow());
        let in_guard = IN_GUARD.with(|g| *g.borrow()) > 0;
        if !in_guard || message.starts_with("HARNESS") {
            // a panic of the harness itself: never swallow it
            eprintln!(
                "HARNESS: panic outside a monitored operation: {} at {:?}",
                message,
                info.location().map(|l| format!("{}:{}", l.file(), l.line()))
            );
        }
        if !quiet {
            eprintln!("panic captured: {} at {}", message, rec.frame.human());
        }
        LAST.with(|l| *l.borrow_mut() = Some(rec));
        alloc::leave_harness();
    }));
}

pub fn set_quiet(q: bool) {
    QUIET.with(|x| *x.borrow_mut() = q);
}

/// Runs `f`, converting a panic into a record. A panic raised by the harness itself (frame
/// outside /repo/src and message starting with "HARNESS") is re-raised.
pub fn guarded<R>(f: impl FnOnce() -> R) -> Result<R, Caught> {
    LAST.with(|l| *l.borrow_mut() = None);
    IN_GUARD.with(|g| *g.borrow_mut() += 1);
    let caught = panic::catch_unwind(AssertUnwindSafe(f));
    IN_GUARD.with(|g| *g.borrow_mut() -= 1);
    match caught {
        Ok(r) => Ok(r),
        Err(payload) => {
            if payload.downcast_ref::<BudgetExceeded>().is_some() {
                return Err(Caught::Budget);
            }
            let rec = LAST.with(|l| l.borrow_mut().take()).unwrap_or(PanicRec {
                message: "<unknown>".into(),
                frame: Frame::default(),
            });
            if rec.message.starts_with("HARNESS") {
                eprintln!("{}", rec.message);
                std::process::exit(2);
            }
            Err(Caught::Panic(rec))
        }
    }
}

pub fn panic_signature(prop: &str, entry: &str, rec: &PanicRec) -> String {
    let _ = entry;
    format!("{}|panic|{}|{}", prop, rec.frame.sig(), normalise_message(&rec.message))
}
