//! Common per-run machinery: the scenario document envelope, operation bracketing with all
//! monitors, violation records and per-run statistics.

use crate::alloc;
use crate::monitor::{self, Caught};
use crate::rng::{fnv1a, Rng, FNV_INIT};
use crate::simfs::{Benign, IoFault, SimFs};
use serde::{Deserialize, Serialize};
use std::collections::BTreeSet;
use std::rc::Rc;

#[derive(Clone, Copy, Debug, PartialEq, Eq, Serialize, Deserialize)]
pub enum Tier {
    Quick,
    Thorough,
}

/// cfg0 quiet, cfg1 benign completions, cfg2 hostile completions and at-rest faults.
#[derive(Clone, Copy, Debug, PartialEq, Eq, Serialize, Deserialize, Hash, PartialOrd, Ord)]
pub enum Cfg {
    Quiet,
    Benign,
    Hostile,
}

#[derive(Clone, Debug, Serialize, Deserialize)]
pub struct Violation {
    pub sig: String,
    pub msg: String,
}

#[derive(Clone, Debug, Default, Serialize, Deserialize)]
pub struct RunResult {
    pub seed: u64,
    pub cfg: u8,
    pub violation: Option<Violation>,
    pub sched_hash: u64,
    pub shape_hash: u64,
    pub log_hash: u64,
    pub nontrivial: bool,
    pub steps: u64,
    pub ops: u32,
    /// flattened fired[call][done]
    pub fired: Vec<u64>,
    pub hostile: Vec<u64>,
    pub at_rest: Vec<u64>,
    pub probes: Vec<u32>,
    pub states: Vec<u64>,
    pub split_small: u64,
    pub max_request: u64,
    pub peak_growth: u64,
    pub leak_checks: u32,
    pub trace: Vec<String>,
}

/// Allocation bound of one operation: ALLOC_BASE_BOUND + ALLOC_FACTOR x bytes of input visible to
/// it. Deflate expands by at most 1032:1, block-compressed textures by 8:1, everything else is
/// linear, so no operation that holds C17/C18 needs more; a corrupted 32-bit size field asks for
/// far more on inputs of the sizes generated here.
pub const ALLOC_BASE_BOUND: usize = 8 << 20;
/// Repetitions that must all grow before steady growth counts as a leak: more than the 2 x 255
/// index files one category of one repository can add to a handle's cache.
pub const LEAK_CONFIRMATIONS: usize = 600;
pub const ALLOC_FACTOR: usize = 1100;

pub struct Harness {
    pub fs: Rc<SimFs>,
    pub prop: &'static str,
    pub seed: u64,
    pub violation: Option<Violation>,
    pub probes: Vec<u32>,
    pub states: BTreeSet<u64>,
    pub at_rest: Vec<u64>,
    pub ops: u32,
    pub log_hash: u64,
    pub max_request: u64,
    pub peak_growth: u64,
    pub leak_checks: u32,
    pub notes: Vec<String>,
    /// set while code shared with another property's check runs, whose probe numbering differs
    pub mute_probes: bool,
    trace: bool,
}

pub enum Outcome<R> {
    Done(R),
    /// the operation ended in a monitor hit (already recorded as the run's violation)
    Crashed,
}

impl<R> Outcome<R> {
    pub fn done(self) -> Option<R> {
        match self {
            Outcome::Done(r) => Some(r),
            Outcome::Crashed => None,
        }
    }
}

pub const AT_REST_KINDS: [&str; 12] = [
    "truncate",
    "zero_sector",
    "garbage_sector",
    "stale_sector",
    "bit_flip",
    "field_corrupt",
    "delete_file",
    "file_to_dir",
    "stray_entry",
    "byte_set",
    "insert_bytes",
    "append_garbage",
];

impl Harness {
    pub fn new(prop: &'static str, seed: u64, n_probes: usize, trace: bool) -> Harness {
        let fs = SimFs::new();
        if trace {
            fs.enable_trace();
        }
        physis::vfs::set_backend(Some(fs.clone()));
        Harness {
            fs,
            prop,
            seed,
            violation: None,
            probes: vec![0; n_probes],
            states: BTreeSet::new(),
            at_rest: vec![0; AT_REST_KINDS.len()],
            ops: 0,
            log_hash: FNV_INIT,
            max_request: 0,
            peak_growth: 0,
            leak_checks: 0,
            notes: vec![],
            mute_probes: false,
            trace,
        }
    }

    pub fn set_policy(&self, benign: &Benign, faults: &[IoFault]) {
        self.fs.set_policy(benign.clone(), faults.to_vec());
    }

    pub fn probe(&mut self, idx: usize) {
        if !self.mute_probes {
            self.probes[idx] += 1;
        }
    }

    pub fn state(&mut self, parts: &[u64]) {
        let mut h = FNV_INIT;
        for p in parts {
            h = fnv1a(h, &p.to_le_bytes());
        }
        self.states.insert(h);
    }

    /// Appends to the run's event log hash (results of operations, in order).
    pub fn log(&mut self, what: &str) {
        self.log_hash = fnv1a(self.log_hash, what.as_bytes());
        self.log_hash = fnv1a(self.log_hash, &[0xff]);
        if self.trace {
            self.notes.push(what.to_string());
        }
    }

    pub fn violate(&mut self, class: &str, msg: String) {
        if self.violation.is_none() {
            self.violation = Some(Violation {
                sig: format!("{}|{}", self.prop, class),
                msg,
            });
        }
    }

    pub fn failed(&self) -> bool {
        self.violation.is_some()
    }

    pub fn sub_seed(&self, op_id: u32) -> u64 {
        Rng::derive(self.seed, 0x0b5e_ed00 + op_id as u64).next_u64()
    }

    /// Brackets one physis operation: sub-seeded completions, step budget, panic capture,
    /// allocation bound. `input_bytes` = bytes of input visible to the operation.
    pub fn op<R>(
        &mut self,
        op_id: u32,
        entry: &str,
        input_bytes: u64,
        f: impl FnOnce() -> R,
    ) -> Outcome<R> {
        self.ops += 1;
        if crate::MARKERS.load(std::sync::atomic::Ordering::Relaxed) {
            // replay-after-death mode: tell the supervisor which entry point is in flight
            use std::io::Write;
            let out = std::io::stdout();
            let mut out = out.lock();
            let _ = writeln!(out, "O {}", entry);
            let _ = out.flush();
        }
        let budget = 1_000_000 + 16 * input_bytes;
        self.fs.begin_op(op_id as usize, self.sub_seed(op_id), budget);
        let bound = ALLOC_BASE_BOUND.saturating_add(ALLOC_FACTOR.saturating_mul(input_bytes as usize));
        alloc::op_begin(bound);
        let r = monitor::guarded(f);
        let rep = alloc::op_end();
        self.fs.end_op();
        self.max_request = self.max_request.max(rep.max_request as u64);
        self.peak_growth = self.peak_growth.max(rep.peak_growth as u64);
        if let Some((size, by_growth, frame)) = rep.flagged {
            let frame_sig = frame.split('@').next().unwrap_or("?").to_string();
            self.violate(
                &format!("alloc|{}|{}", if by_growth { "growth" } else { "request" }, frame_sig),
                format!(
                    "{} asked for {} bytes ({}) with {} bytes of input visible (bound {}), at {}",
                    entry,
                    size,
                    if by_growth { "live growth" } else { "single request" },
                    input_bytes,
                    bound,
                    frame
                ),
            );
        }
        match r {
            Ok(v) => {
                if self.failed() && self.violation.as_ref().unwrap().sig.contains("|alloc|") {
                    // the value came out of a refused allocation path; keep it, the run is
                    // already marked
                }
                Outcome::Done(v)
            }
            Err(Caught::Budget) => {
                self.violate(
                    "budget",
                    format!("{} exceeded its step budget of {} file-system calls", entry, budget),
                );
                Outcome::Crashed
            }
            Err(Caught::Panic(rec)) => {
                // a refused allocation may surface as a panic ("capacity overflow" etc.); the
                // allocation record is the more specific finding and was stored first
                let sig = monitor::panic_signature(self.prop, entry, &rec);
                if self.violation.is_none() {
                    self.violation = Some(Violation {
                        sig,
                        msg: format!("{} panicked: {} at {}", entry, rec.message, rec.frame.human()),
                    });
                }
                Outcome::Crashed
            }
        }
    }

    /// M5: repeat a failed read-only operation and require steady live bytes.
    pub fn leak_check(&mut self, op_id: u32, entry: &str, class: &str, mut f: impl FnMut()) {
        if self.failed() {
            return;
        }
        self.leak_checks += 1;
        self.fs.pause_trace(true);
        let mut lives = [0isize; 4];
        for k in 0..4 {
            self.fs.begin_op(op_id as usize, self.sub_seed(op_id), u64::MAX);
            let r = monitor::guarded(|| f());
            self.fs.end_op();
            if r.is_err() {
                self.fs.pause_trace(false);
                return; // crash monitors report on the first execution, not here
            }
            lives[k] = alloc::live_net();
        }
        let d1 = lives[2] - lives[1];
        let d2 = lives[3] - lives[2];
        let mut leaking = d1 > 0 && d2 > 0 && d1 == d2;
        if leaking {
            // A handle that caches parsed index files may legitimately keep one more file per
            // repetition when the fault schedule (which restarts with every repetition) lets
            // each call get one file further. Such growth ends once the cache is full: a
            // category has at most 255 chunks with two index files each. A leak never ends.
            let mut last = lives[3];
            for _ in 0..LEAK_CONFIRMATIONS {
                self.fs.begin_op(op_id as usize, self.sub_seed(op_id), u64::MAX);
                let r = monitor::guarded(|| f());
                self.fs.end_op();
                let now = alloc::live_net();
                if r.is_err() || now - last <= 0 {
                    leaking = false;
                    break;
                }
                last = now;
            }
        }
        self.fs.pause_trace(false);
        if leaking {
            self.violate(
                &format!("leak|{}|{}", entry, class),
                format!(
                    "{} leaves {} more live bytes after every repetition of the same failed call ({})",
                    entry, d1, class
                ),
            );
        }
    }

    pub fn finish(self, cfg: Cfg, shape_hash: u64) -> RunResult {
        physis::vfs::set_backend(None);
        let (fired, hostile, steps, sched_hash, split_small) = self.fs.stats(|s| {
            (
                s.fired.iter().flat_map(|r| r.iter().copied()).collect::<Vec<u64>>(),
                s.hostile_fired.to_vec(),
                s.steps,
                s.sched_hash,
                s.split_small,
            )
        });
        // non-trivial: at least one non-full completion, permuted listing, hostile completion or
        // at-rest fault actually happened in this run
        let mut nontrivial = self.at_rest.iter().any(|x| *x > 0);
        for call in 0..10 {
            for done in [2usize, 3, 6, 7] {
                if fired[call * 8 + done] > 0 {
                    nontrivial = true;
                }
            }
        }
        let mut trace = self.fs.take_trace();
        if self.trace {
            trace.extend(self.notes.iter().map(|n| format!("note: {}", n)));
        }
        RunResult {
            seed: self.seed,
            cfg: cfg as u8,
            violation: self.violation,
            sched_hash,
            shape_hash,
            log_hash: self.log_hash,
            nontrivial,
            steps,
            ops: self.ops,
            fired,
            hostile,
            at_rest: self.at_rest,
            probes: self.probes,
            states: self.states.into_iter().collect(),
            split_small,
            max_request: self.max_request,
            peak_growth: self.peak_growth,
            leak_checks: self.leak_checks,
            trace,
        }
    }
}
