//! At-rest storage faults applied to stored bytes (DESIGN §3.4): torn / short writes, lost or
//! garbage sectors, bit rot, and corruption of single named fields.

use crate::formats::Field;
use crate::rng::{fill_bytes, Rng};
use serde::{Deserialize, Serialize};

#[derive(Clone, Debug, PartialEq, Eq, Serialize, Deserialize)]
pub enum Damage {
    /// torn / short write: the file ends at `at`
    Truncate { at: usize },
    /// lost write: a 512-byte sector reads back as zeros
    ZeroSector { sector: usize },
    GarbageSector { sector: usize, fill: u64 },
    /// torn overwrite: the sector holds bytes of another (older) version of the object
    StaleSector { sector: usize, fill: u64 },
    BitFlip { bit: usize },
    /// a named field set to a chosen value
    Field { name: String, off: usize, width: usize, be: bool, value: u64 },
    SetByte { off: usize, value: u8 },
    Insert { off: usize, hex: String },
    Append { hex: String },
}

pub const SECTOR: usize = 512;

impl Damage {
    /// index into harness::AT_REST_KINDS
    pub fn kind_index(&self) -> usize {
        match self {
            Damage::Truncate { .. } => 0,
            Damage::ZeroSector { .. } => 1,
            Damage::GarbageSector { .. } => 2,
            Damage::StaleSector { .. } => 3,
            Damage::BitFlip { .. } => 4,
            Damage::Field { .. } => 5,
            Damage::SetByte { .. } => 9,
            Damage::Insert { .. } => 10,
            Damage::Append { .. } => 11,
        }
    }

    pub fn apply(&self, b: &mut Vec<u8>) {
        match self {
            Damage::Truncate { at } => {
                if *at < b.len() {
                    b.truncate(*at);
                }
            }
            Damage::ZeroSector { sector } => {
                let s = sector * SECTOR;
                if s < b.len() {
                    let e = (s + SECTOR).min(b.len());
                    b[s..e].iter_mut().for_each(|x| *x = 0);
                }
            }
            Damage::GarbageSector { sector, fill } | Damage::StaleSector { sector, fill } => {
                let s = sector * SECTOR;
                if s < b.len() {
                    let e = (s + SECTOR).min(b.len());
                    let g = fill_bytes(e - s, *fill & !3);
                    b[s..e].copy_from_slice(&g);
                }
            }
            Damage::BitFlip { bit } => {
                if bit / 8 < b.len() {
                    b[bit / 8] ^= 1 << (bit % 8);
                }
            }
            Damage::Field { off, width, be, value, .. } => {
                if off + width <= b.len() {
                    for i in 0..*width {
                        let shift = if *be { 8 * (width - 1 - i) } else { 8 * i };
                        b[off + i] = if shift < 64 { (value >> shift) as u8 } else { 0 };
                    }
                }
            }
            Damage::SetByte { off, value } => {
                if *off < b.len() {
                    b[*off] = *value;
                }
            }
            Damage::Insert { off, hex } => {
                let ins = crate::formats::unhex(hex);
                let at = (*off).min(b.len());
                let tail = b.split_off(at);
                b.extend_from_slice(&ins);
                b.extend_from_slice(&tail);
            }
            Damage::Append { hex } => b.extend_from_slice(&crate::formats::unhex(hex)),
        }
    }
}

pub fn read_field(b: &[u8], f: &Field) -> u64 {
    let mut v = 0u64;
    if f.off + f.width > b.len() {
        return 0;
    }
    for i in 0..f.width.min(8) {
        let byte = b[f.off + i] as u64;
        if f.be {
            v = (v << 8) | byte;
        } else {
            v |= byte << (8 * i);
        }
    }
    v
}

/// The field-corruption value table of the property statement: 0, 1, 0x7F.., 0x80.., 0xFF..,
/// the original value +-1, plus format-aware values (see below).
pub fn field_values(orig: u64, width: usize) -> Vec<u64> {
    let bits = (8 * width.min(8)) as u32;
    let mask = if bits >= 64 { u64::MAX } else { (1u64 << bits) - 1 };
    let mut v = vec![
        0,
        1,
        mask >> 1,
        (mask >> 1) + 1,
        mask,
        orig.wrapping_add(1) & mask,
        orig.wrapping_sub(1) & mask,
        (orig.wrapping_mul(2)) & mask,
        mask - 1,
        0x10000 & mask,
        // the formats are built from 16-byte headers and 128-byte blocks: sizes and offsets that
        // are off by one header or one block, moderately large counts, small negative values
        orig.wrapping_add(16) & mask,
        orig.wrapping_sub(16) & mask,
        orig.wrapping_add(128) & mask,
        orig.wrapping_sub(128) & mask,
        orig.wrapping_add(144) & mask,
        0x100 & mask,
        0x1000 & mask,
        mask - 3,
        mask - 7,
        mask - 15,
        // small counts and indices around the sizes of fixed tables (2^k and 2^k - 1)
        2,
        3,
        4,
        7,
        8,
        15,
        16 & mask,
        31 & mask,
        32 & mask,
        63 & mask,
        64 & mask,
        127 & mask,
        128 & mask,
    ];
    v.retain(|x| *x != orig);
    v.sort();
    v.dedup();
    v
}

pub fn draw_field(r: &mut Rng, bytes: &[u8], fields: &[Field]) -> Option<Damage> {
    if fields.is_empty() {
        return None;
    }
    let f = r.pick(fields);
    let orig = read_field(bytes, f);
    let vals = field_values(orig, f.width);
    if vals.is_empty() {
        return None;
    }
    // mostly the table; sometimes any small value or any value near the original
    let value = match r.below(8) {
        0 => r.below(300),
        1 => orig.wrapping_add(r.below(64)).wrapping_sub(32),
        _ => *r.pick(&vals),
    };
    let bits = (8 * f.width.min(8)) as u32;
    let mask = if bits >= 64 { u64::MAX } else { (1u64 << bits) - 1 };
    let value = value & mask;
    if value == orig {
        return None;
    }
    Some(Damage::Field { name: f.name.clone(), off: f.off, width: f.width, be: f.be, value })
}

/// Draws one at-rest fault for a stored object of `len` bytes with the given structure
/// boundaries and named fields.
pub fn draw(r: &mut Rng, bytes: &[u8], boundaries: &[usize], fields: &[Field]) -> Damage {
    let len = bytes.len().max(1);
    match r.below(14) {
        0..=2 => {
            // truncation: at a structure boundary +-1, or anywhere
            let at = if !boundaries.is_empty() && r.chance(2, 3) {
                let b = *r.pick(boundaries) as i64 + r.range(0, 2) as i64 - 1;
                b.clamp(0, len as i64 - 1) as usize
            } else {
                r.usize_below(len)
            };
            Damage::Truncate { at }
        }
        3..=6 => match draw_field(r, bytes, fields) {
            Some(d) => d,
            None => Damage::BitFlip { bit: r.usize_below(len * 8) },
        },
        7 => Damage::ZeroSector { sector: r.usize_below(len.div_ceil(SECTOR)) },
        8 => Damage::GarbageSector { sector: r.usize_below(len.div_ceil(SECTOR)), fill: r.next_u64() },
        9 => Damage::StaleSector { sector: r.usize_below(len.div_ceil(SECTOR)), fill: r.next_u64() },
        10 | 11 => Damage::BitFlip { bit: r.usize_below(len * 8) },
        12 => Damage::SetByte { off: r.usize_below(len), value: *r.pick(&[0u8, 0xFF, 0x80, 0x7F, b'<', b'\t', b'\n', 0xC3]) },
        _ => {
            if r.chance(1, 2) {
                Damage::Append { hex: crate::formats::hex(&fill_bytes(r.range(1, 40) as usize, r.next_u64())) }
            } else {
                Damage::Insert { off: r.usize_below(len), hex: crate::formats::hex(&fill_bytes(r.range(1, 8) as usize, r.next_u64())) }
            }
        }
    }
}

/// Generic header field table for a binary object without a writer-side field map: every u32
/// and u16 of the first `span` bytes and every byte of the first 32.
pub fn generic_fields(len: usize, span: usize) -> Vec<Field> {
    let mut v = vec![];
    let span = span.min(len);
    let mut off = 0;
    while off + 4 <= span {
        v.push(Field { name: format!("u32@{}", off), off, width: 4, be: false });
        off += 4;
    }
    let mut off = 0;
    while off + 2 <= span.min(128) {
        v.push(Field { name: format!("u16@{}", off), off, width: 2, be: false });
        off += 2;
    }
    for off in 0..span.min(32) {
        v.push(Field { name: format!("u8@{}", off), off, width: 1, be: false });
    }
    v
}
