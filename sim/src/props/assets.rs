//! C18(b): asset buffers under at-rest storage faults. The valid objects come from the
//! per-format builders in assets_gen.rs (written from the binrw grammars); this file feeds a
//! (possibly damaged) stored object to the matching physis entry point and its follow-up calls
//! under the crash, time and allocation monitors.

use super::assets_gen as gen;
use super::damage::Damage;
use crate::formats::Field;
use crate::harness::Harness;

pub const FORMATS: &[&str] = gen::FORMATS;

pub fn build(format: &str, seed: u64) -> Vec<u8> {
    gen::build(format, seed)
}

pub fn fields(format: &str, seed: u64) -> Vec<Field> {
    gen::fields(format, seed)
        .into_iter()
        .map(|f| Field { name: f.name, off: f.off, width: f.width, be: f.be })
        .collect()
}

/// Calls the entry point of `format` and the follow-up calls the property names. Returns true
/// if the parser produced a value.
fn parse(format: &str, seed: u64, b: &[u8], companion: Option<&[u8]>) -> bool {
    match format {
        "tex" => physis::tex::Texture::from_existing(b).is_some(),
        "exh" => physis::exh::EXH::from_existing(b).is_some(),
        "exd" => {
            let exh = companion.and_then(physis::exh::EXH::from_existing);
            let exd = physis::exd::EXD::from_existing(b);
            if let (Some(exh), Some(exd)) = (&exh, &exd) {
                for id in gen::exd_row_ids(seed) {
                    let _ = exd.read_row(exh, id);
                }
                let _ = exd.read_row(exh, 0xFFFF_FFF0);
                let _ = exd.read_row(exh, 0);
            }
            exd.is_some()
        }
        "pbd" => {
            let p = physis::pbd::PreBoneDeformer::from_existing(b);
            if let Some(p) = &p {
                let ids = gen::pbd_body_ids(seed);
                if ids.len() >= 2 {
                    let _ = p.get_deform_matrices(*ids.last().unwrap(), ids[0]);
                    let _ = p.get_deform_matrices(ids[0], ids[1]);
                    let _ = p.get_deform_matrices(ids[1], ids[0]);
                }
            }
            p.is_some()
        }
        "cmp" => physis::cmp::CMP::from_existing(b).is_some(),
        "tera" => physis::tera::Terrain::from_existing(b).is_some(),
        "stm" => physis::stm::StainingTemplate::from_existing(b).is_some(),
        "dic" => physis::dic::Dictionary::from_existing(b).is_some(),
        "shpk" => {
            let s = physis::shpk::ShaderPackage::from_existing(b);
            if let Some(s) = &s {
                for sel in gen::shpk_selectors(seed) {
                    let _ = s.find_node(sel);
                }
                let _ = s.find_node(0);
            }
            s.is_some()
        }
        "mtrl" => physis::mtrl::Material::from_existing(b).is_some(),
        "sklb" => physis::skeleton::Skeleton::from_existing(b).is_some(),
        "avfx" => physis::avfx::Avfx::from_existing(b).is_some(),
        "lgb" => physis::layer::LayerGroup::from_existing(b).is_some(),
        "db" => physis::sqpack::SqPackDatabase::from_existing(b).is_some(),
        "uld" => physis::uld::Uld::from_existing(b).is_some(),
        "sgb" => physis::sgb::Sgb::from_existing(b).is_some(),
        "scd" => physis::scd::Scd::from_existing(b).is_some(),
        "hwc" => physis::hwc::Hwc::from_existing(b).is_some(),
        "iwc" => physis::iwc::Iwc::from_existing(b).is_some(),
        "tmb" => physis::tmb::Tmb::from_existing(b).is_some(),
        "skp" => physis::skp::Skp::from_existing(b).is_some(),
        "schd" => physis::schd::Schd::from_existing(b).is_some(),
        "phyb" => physis::phyb::Phyb::from_existing(b).is_some(),
        "pap" => physis::pap::Pap::from_existing(b).is_some(),
        "mdl" => physis::model::MDL::from_existing(b).is_some(),
        _ => panic!("HARNESS: no parser wired for {}", format),
    }
}

/// The first `src/....rs` path named in a signature or message.
fn source_file_of(text: &str) -> Option<String> {
    let start = text.find("src/")?;
    let rest = &text[start..];
    let end = rest.find(".rs")? + 3;
    let f = &rest[..end];
    if f.chars().all(|c| c.is_ascii_alphanumeric() || c == '/' || c == '_' || c == '.') {
        Some(f.to_string())
    } else {
        None
    }
}

pub fn entry_name(format: &str) -> String {
    match format {
        "exd" => "EXD::from_existing+read_row".to_string(),
        "pbd" => "PreBoneDeformer::from_existing+get_deform_matrices".to_string(),
        "shpk" => "ShaderPackage::from_existing+find_node".to_string(),
        f => format!("{}::from_existing", f),
    }
}

pub fn run_asset(h: &mut Harness, format: &str, seed: u64, damage: &[Damage]) {
    let mut bytes = build(format, seed);
    for d in damage {
        d.apply(&mut bytes);
        h.at_rest[d.kind_index()] += 1;
    }
    // the object is a file at rest on the simulated disk; the caller reads it whole
    h.fs.h_write("/w/asset/object.bin", bytes);
    let bytes = h.fs.h_read("/w/asset/object.bin").unwrap();
    let companion = gen::companion(format, seed);
    let n = bytes.len() as u64 + companion.as_ref().map(|c| c.len() as u64).unwrap_or(0);
    let entry = format!("asset:{}", format);
    let r = h.op(0, &entry, n, || parse(format, seed, &bytes, companion.as_deref())).done();
    // Asset-buffer violations are classified per format, kind and source file of the failing
    // call site, not per line: the asset parsers share a few failure patterns over a very large
    // number of sites, and a stable, complete classification matters more here than a finer one
    // (DESIGN §5). The file keeps a recorded finding in one module from hiding a new one in
    // another.
    if let Some(v) = h.violation.as_mut() {
        let kind = v.sig.split('|').nth(1).unwrap_or("panic").to_string();
        let file = source_file_of(&v.sig).or_else(|| source_file_of(&v.msg));
        v.msg = format!("{} [{}; original signature {}]", v.msg, entry_name(format), v.sig);
        v.sig = match file {
            Some(f) => format!("C18|asset|{}|{}|{}", format, kind, f),
            None => format!("C18|asset|{}|{}", format, kind),
        };
    }
    h.log(&format!("{} -> {:?}", entry, r));
    let fi = FORMATS.iter().position(|f| *f == format).unwrap_or(0) as u64;
    h.state(&[100 + fi, r.map(|x| x as u64 + 1).unwrap_or(0), damage.first().map(|d| d.kind_index() as u64 + 1).unwrap_or(0)]);
    if damage.is_empty() && r != Some(true) && !h.failed() {
        h.violate(&format!("HARNESS-asset-builder|{}", format), format!("HARNESS: the undamaged {} object does not parse", format));
    }
}
