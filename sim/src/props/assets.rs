//! C18(b): asset buffers under at-rest storage faults. Builders live in assets_gen.rs.

use super::damage::Damage;
use crate::formats::Field;
use crate::harness::Harness;

pub const FORMATS: &[&str] = &[];

pub fn build(_format: &str, _seed: u64) -> Vec<u8> {
    panic!("HARNESS: no asset builders yet")
}

pub fn fields(_format: &str, _seed: u64) -> Vec<Field> {
    vec![]
}

pub fn run_asset(_h: &mut Harness, _format: &str, _seed: u64, _damage: &[Damage]) {}
