//! Per-property scenario generators, runners (oracles) and shrinkers.

pub mod archive;
pub mod c01;
pub mod c02;
pub mod c03;
pub mod c04;
pub mod assets;
pub mod c17;
pub mod c18;
pub mod damage;

use crate::harness::{Cfg, RunResult, Tier};
use crate::simfs::{Benign, IoFault};
use serde::{Deserialize, Serialize};

#[derive(Clone, Debug, Serialize, Deserialize)]
pub struct Doc {
    pub prop: String,
    pub seed: u64,
    pub cfg: Cfg,
    pub benign: Benign,
    #[serde(default)]
    pub io_faults: Vec<IoFault>,
    pub body: Body,
}

#[derive(Clone, Debug, Serialize, Deserialize)]
pub enum Body {
    C04(c04::C04Doc),
    C03(c03::C03Doc),
    C01(c01::C01Doc),
    C02(c02::C02Doc),
    C17(c17::C17Doc),
    C18(c18::C18Doc),
}

pub const PROPS: [&str; 6] = ["C01", "C02", "C03", "C04", "C17", "C18"];

pub fn generate(prop: &str, seed: u64, tier: Tier) -> Doc {
    match prop {
        "C04" => c04::generate(seed, tier),
        "C03" => c03::generate(seed, tier),
        "C01" => c01::generate(seed, tier),
        "C02" => c02::generate(seed, tier),
        "C17" => c17::generate(seed, tier),
        "C18" => c18::generate(seed, tier),
        _ => panic!("HARNESS: unknown property {}", prop),
    }
}

/// Hand-parameterised scenarios that make every mandatory probe non-zero, independent of the seed.
pub fn directed(prop: &str) -> Vec<Doc> {
    match prop {
        "C04" => c04::directed(),
        "C03" => c03::directed(),
        "C01" => c01::directed(),
        "C02" => c02::directed(),
        "C17" => c17::directed(),
        "C18" => c18::directed(),
        _ => vec![],
    }
}

pub fn run_doc(doc: &Doc, trace: bool) -> RunResult {
    match &doc.body {
        Body::C04(b) => c04::run(doc, b, trace),
        Body::C03(b) => c03::run(doc, b, trace),
        Body::C01(b) => c01::run(doc, b, trace),
        Body::C02(b) => c02::run(doc, b, trace),
        Body::C17(b) => c17::run(doc, b, trace),
        Body::C18(b) => c18::run(doc, b, trace),
    }
}

pub fn shrink_candidates(doc: &Doc) -> Vec<Doc> {
    let mut out = vec![];
    // generic: drop faults, quieten completions
    for i in 0..doc.io_faults.len() {
        let mut d = doc.clone();
        d.io_faults.remove(i);
        out.push(d);
    }
    if !doc.benign.is_quiet() {
        let mut d = doc.clone();
        d.benign = Benign::quiet();
        if d.cfg == Cfg::Benign {
            d.cfg = Cfg::Quiet;
        }
        out.push(d);
        let b = &doc.benign;
        let mut single = |f: &dyn Fn(&mut Benign)| {
            let mut d = doc.clone();
            f(&mut d.benign);
            if d.benign != doc.benign {
                out.push(d);
            }
        };
        single(&|b| b.short_read = 0);
        single(&|b| b.eintr_read = 0);
        single(&|b| b.short_write = 0);
        single(&|b| b.eintr_write = 0);
        single(&|b| b.one_byte_reads = false);
        single(&|b| b.one_byte_writes = false);
        single(&|b| b.permute_dirs = false);
        let _ = b;
    }
    match &doc.body {
        Body::C04(b) => {
            for nb in c04::shrink(b) {
                let mut d = doc.clone();
                d.body = Body::C04(nb);
                out.push(d);
            }
        }
        Body::C01(b) => {
            for nb in c01::shrink(b) {
                let mut d = doc.clone();
                d.body = Body::C01(nb);
                out.push(d);
            }
        }
        Body::C02(b) => {
            for nb in c02::shrink(b) {
                let mut d = doc.clone();
                d.body = Body::C02(nb);
                out.push(d);
            }
        }
        Body::C17(b) => {
            for nb in c17::shrink(b) {
                let mut d = doc.clone();
                d.body = Body::C17(nb);
                out.push(d);
            }
        }
        Body::C18(b) => {
            for nb in c18::shrink(b) {
                let mut d = doc.clone();
                d.body = Body::C18(nb);
                out.push(d);
            }
        }
        Body::C03(b) => {
            for nb in c03::shrink(b) {
                if !c03::well_formed(&nb) {
                    continue;
                }
                let mut d = doc.clone();
                d.body = Body::C03(nb);
                out.push(d);
            }
        }
    }
    out
}

pub fn probe_names(prop: &str) -> &'static [&'static str] {
    match prop {
        "C04" => &c04::PROBES,
        "C03" => &c03::PROBES,
        "C01" => &c01::PROBES,
        "C02" => &c02::PROBES,
        "C17" => &c17::PROBES,
        "C18" => &c18::PROBES,
        _ => &[],
    }
}

/// Indices of probes that must be non-zero in every batch (else harness error).
pub fn mandatory_probes(prop: &str) -> Vec<usize> {
    match prop {
        "C04" => (0..c04::PROBES.len()).collect(),
        "C03" => (0..c03::PROBES.len()).collect(),
        "C01" => (0..c01::PROBES.len()).collect(),
        "C02" => (0..c02::PROBES.len()).collect(),
        "C17" => (0..c17::PROBES.len()).collect(),
        "C18" => (0..c18::PROBES.len() - 1).collect(),
        _ => vec![],
    }
}

pub fn level(prop: &str) -> &'static str {
    match prop {
        "C17" | "C18" => "fault_enumeration",
        _ => "exploration",
    }
}

pub fn draw_cfg_benign(r: &mut crate::rng::Rng) -> (Cfg, Benign) {
    if r.chance(1, 5) {
        (Cfg::Quiet, Benign::quiet())
    } else {
        let mut b = Benign::draw(r);
        if b.is_quiet() {
            b.permute_dirs = true;
            b.short_read = 64;
        }
        (Cfg::Benign, b)
    }
}

/// (quick runs, thorough runs)
pub fn budget(prop: &str) -> (u64, u64) {
    match prop {
        "C04" => (20_000, 600_000),
        _ => (10_000, 100_000),
    }
}

pub fn rule(prop: &str) -> &'static str {
    match prop {
        "C04" => "one evaluation = one generated pair of trees (A,B) + one completion schedule drawn from the scenario seed (VERIF_SEED+i): ZiPatch::create(A,B) then ZiPatch::apply on a copy of A, all file-system calls decided by SimFs. Non-trivial = at least one short/interrupted read or write or one permuted directory listing actually happened inside create/apply; distinct = distinct (hash of the sequence of (call kind, completion kind), hash of the tree-pair shape).",
        _ => "",
    }
}

pub fn models(prop: &str) -> Vec<&'static str> {
    match prop {
        "C04" => vec!["tree equality oracle: files(T) == files(B); SimFs mutation index for 'create never modifies A or B'"],
        _ => vec![],
    }
}

pub fn assumptions(prop: &str) -> Vec<&'static str> {
    let mut v = vec![
        "SimFs models POSIX file semantics faithfully where physis can reach them (checked by `sim selftest fidelity` against the real file system for fault-free scenarios)",
        "sampling, not proof: a clean batch is evidence for the seeds and bounds reported",
    ];
    match prop {
        "C04" => v.push("trees hold regular files only, ASCII names, no file/directory name clash between A and B, no empty files in B (as the statement's quantifier says)"),
        _ => {}
    }
    v
}
