//! Per-property scenario generators, runners (oracles) and shrinkers.

pub mod archive;
pub mod c01;
pub mod c02;
pub mod c03;
pub mod c04;
pub mod assets;
#[allow(dead_code)]
pub mod assets_gen;
pub mod c17;
pub mod c18;
pub mod damage;

use crate::harness::{Cfg, RunResult, Tier};
use crate::simfs::{Benign, IoFault};
use serde::{Deserialize, Serialize};

#[derive(Clone, Debug, Serialize, Deserialize)]
pub struct Doc {
    pub prop: String,
    pub seed: u64,
    pub cfg: Cfg,
    pub benign: Benign,
    #[serde(default)]
    pub io_faults: Vec<IoFault>,
    pub body: Body,
}

#[derive(Clone, Debug, Serialize, Deserialize)]
pub enum Body {
    C04(c04::C04Doc),
    C03(c03::C03Doc),
    C01(c01::C01Doc),
    C02(c02::C02Doc),
    C17(c17::C17Doc),
    C18(c18::C18Doc),
}

pub const PROPS: [&str; 6] = ["C01", "C02", "C03", "C04", "C17", "C18"];

pub fn generate(prop: &str, seed: u64, tier: Tier) -> Doc {
    match prop {
        "C04" => c04::generate(seed, tier),
        "C03" => c03::generate(seed, tier),
        "C01" => c01::generate(seed, tier),
        "C02" => c02::generate(seed, tier),
        "C17" => c17::generate(seed, tier),
        "C18" => c18::generate(seed, tier),
        _ => panic!("HARNESS: unknown property {}", prop),
    }
}

/// Hand-parameterised scenarios that make every mandatory probe non-zero, independent of the seed.
pub fn directed(prop: &str) -> Vec<Doc> {
    match prop {
        "C04" => c04::directed(),
        "C03" => c03::directed(),
        "C01" => c01::directed(),
        "C02" => c02::directed(),
        "C17" => c17::directed(),
        "C18" => c18::directed(),
        _ => vec![],
    }
}

pub fn run_doc(doc: &Doc, trace: bool) -> RunResult {
    match &doc.body {
        Body::C04(b) => c04::run(doc, b, trace),
        Body::C03(b) => c03::run(doc, b, trace),
        Body::C01(b) => c01::run(doc, b, trace),
        Body::C02(b) => c02::run(doc, b, trace),
        Body::C17(b) => c17::run(doc, b, trace),
        Body::C18(b) => c18::run(doc, b, trace),
    }
}

pub fn shrink_candidates(doc: &Doc) -> Vec<Doc> {
    let mut out = vec![];
    // generic: drop faults, quieten completions
    for i in 0..doc.io_faults.len() {
        let mut d = doc.clone();
        d.io_faults.remove(i);
        out.push(d);
    }
    if !doc.benign.is_quiet() {
        let mut d = doc.clone();
        d.benign = Benign::quiet();
        if d.cfg == Cfg::Benign {
            d.cfg = Cfg::Quiet;
        }
        out.push(d);
        let b = &doc.benign;
        let mut single = |f: &dyn Fn(&mut Benign)| {
            let mut d = doc.clone();
            f(&mut d.benign);
            if d.benign != doc.benign {
                out.push(d);
            }
        };
        single(&|b| b.short_read = 0);
        single(&|b| b.eintr_read = 0);
        single(&|b| b.short_write = 0);
        single(&|b| b.eintr_write = 0);
        single(&|b| b.one_byte_reads = false);
        single(&|b| b.one_byte_writes = false);
        single(&|b| b.permute_dirs = false);
        let _ = b;
    }
    match &doc.body {
        Body::C04(b) => {
            for nb in c04::shrink(b) {
                let mut d = doc.clone();
                d.body = Body::C04(nb);
                out.push(d);
            }
        }
        Body::C01(b) => {
            for nb in c01::shrink(b) {
                let mut d = doc.clone();
                d.body = Body::C01(nb);
                out.push(d);
            }
        }
        Body::C02(b) => {
            for nb in c02::shrink(b) {
                let mut d = doc.clone();
                d.body = Body::C02(nb);
                out.push(d);
            }
        }
        Body::C17(b) => {
            for nb in c17::shrink(b) {
                let mut d = doc.clone();
                d.body = Body::C17(nb);
                out.push(d);
            }
        }
        Body::C18(b) => {
            for nb in c18::shrink(b) {
                let mut d = doc.clone();
                d.body = Body::C18(nb);
                out.push(d);
            }
        }
        Body::C03(b) => {
            for nb in c03::shrink(b) {
                if !c03::well_formed(&nb) {
                    continue;
                }
                let mut d = doc.clone();
                d.body = Body::C03(nb);
                out.push(d);
            }
        }
    }
    out
}

pub fn probe_names(prop: &str) -> &'static [&'static str] {
    match prop {
        "C04" => &c04::PROBES,
        "C03" => &c03::PROBES,
        "C01" => &c01::PROBES,
        "C02" => &c02::PROBES,
        "C17" => &c17::PROBES,
        "C18" => &c18::PROBES,
        _ => &[],
    }
}

/// Indices of probes that must be non-zero in every batch (else harness error).
pub fn mandatory_probes(prop: &str) -> Vec<usize> {
    match prop {
        "C04" => (0..c04::PROBES.len()).collect(),
        "C03" => (0..c03::PROBES.len()).collect(),
        "C01" => (0..c01::PROBES.len()).collect(),
        "C02" => (0..c02::PROBES.len()).collect(),
        "C17" => (0..c17::PROBES.len()).collect(),
        "C18" => (0..c18::PROBES.len() - 1).collect(),
        _ => vec![],
    }
}

pub fn level(prop: &str) -> &'static str {
    match prop {
        "C17" | "C18" => "fault_enumeration",
        _ => "exploration",
    }
}

pub fn draw_cfg_benign(r: &mut crate::rng::Rng) -> (Cfg, Benign) {
    if r.chance(1, 5) {
        (Cfg::Quiet, Benign::quiet())
    } else {
        let mut b = Benign::draw(r);
        if b.is_quiet() {
            b.permute_dirs = true;
            b.short_read = 64;
        }
        (Cfg::Benign, b)
    }
}

/// (quick runs, thorough runs): sized for about 25 s and 10 minutes on 16 workers
pub fn budget(prop: &str) -> (u64, u64) {
    match prop {
        "C01" => (50_000, 1_200_000),
        "C02" => (200_000, 5_000_000),
        "C03" => (200_000, 4_000_000),
        "C04" => (400_000, 9_000_000),
        "C17" => (400_000, 9_000_000),
        "C18" => (80_000, 2_000_000),
        _ => (10_000, 100_000),
    }
}

pub fn rule(prop: &str) -> &'static str {
    match prop {
        "C01" => "one evaluation = one generated SqPack install (written by the independent archive writer onto SimFs) + one query history on one GameData handle + one completion schedule, all drawn from the scenario seed (VERIF_SEED+i); every exists/find_offset/extract answer is compared with the reference lookup. Non-trivial = at least one short/interrupted read, permuted directory listing or (flagged extension) transient hostile completion actually happened; distinct = distinct (hash of the (call kind, completion kind) sequence, hash of install shape and query list).",
        "C02" => "one evaluation = one generated dat file (independent packer: standard, texture and model entries, every block raw or deflated as stored/fixed/dynamic stream) + reads of its entries through SqPackData::read_from_offset or GameData::extract under one completion schedule; output compared byte for byte with what was packed (model: synthesized header fields and section addressing). Non-trivial = at least one short or interrupted read actually happened; distinct = distinct (schedule hash, hash of entry shapes).",
        "C03" => "one evaluation = one pre-existing tree + 1..3 generated patch files (independent chunk writer) applied through ZiPatch::apply / GameData::apply_patch / BootData::apply_patch under one completion schedule; after every patch the SimFs tree must equal the executable reference ZiPatch semantics and the mutation trace must touch nothing else. The first 2890 evaluations of every batch are the systematic part (all sequences of <= 3 commands over a 14-command alphabet). Non-trivial = at least one short/interrupted read or write or permuted listing actually happened; distinct = distinct (schedule hash, hash of the command-kind sequence).",
        "C04" => "one evaluation = one generated pair of trees (A,B) + one completion schedule drawn from the scenario seed (VERIF_SEED+i): ZiPatch::create(A,B) then ZiPatch::apply on a copy of A, all file-system calls decided by SimFs. Non-trivial = at least one short/interrupted read or write or one permuted directory listing actually happened inside create/apply; distinct = distinct (hash of the sequence of (call kind, completion kind), hash of the tree-pair shape).",
        "C17" => "one evaluation = one valid stored object or patch scenario + one fault sequence: hostile I/O completions placed inside in-flight operations (positions drawn from a fault-free profile run of the same scenario), at-rest storage faults (truncation, lost/garbage/stale sector, bit flip, named-field corruption, missing file, file replaced by a directory) and benign completions, all from the scenario seed. The directed part sweeps every truncation point of every small base object and patch and the whole field-value table for every named field. Monitors: panic, abort/stack overflow/signal (worker process), step budget and watchdog, allocation bound, 'Ok implies reference tree'. Non-trivial = at least one fault (hostile completion or at-rest fault) or non-full completion actually fired; distinct = distinct (schedule hash, hash of the scenario document).",
        "C18" => "one evaluation = one generated install + a sequence of steps on a live GameData handle in which at-rest storage faults hit index and dat files between queries (truncation at structure boundaries +-1, named-field corruption of index header/entries, file-info, model-info, texture-mip and block headers, payload corruption, removed dat, dat replaced by a directory, stray directories with short / non-UTF-8 / ex+non-digit names) plus hostile read/seek/open/metadata completions during reassembly and discovery; or one generated asset buffer damaged the same way. The directed part sweeps the field-value table for every named field and every boundary truncation of a fixed install. Monitors: panic, process death, step budget/watchdog, allocation bound, leak under repetition of a failed extraction. Non-trivial and distinct as for C17.",
        _ => "",
    }
}

pub fn models(prop: &str) -> Vec<&'static str> {
    match prop {
        "C01" => vec!["independent SqPack index/index2/dat writer (sim/src/formats/sqpack.rs)", "reference lookup: category = first component, repository = second component if present else base, bitwise JAMCRC of the lower-cased path (sim/src/props/archive.rs)"],
        "C02" => vec!["independent packer: file-info headers, block tables, raw / miniz / hand-built stored and fixed-Huffman deflate blocks (sim/src/formats/sqpack.rs, sim/src/formats/mod.rs)"],
        "C03" => vec!["independent ZiPatch chunk writer and executable reference semantics over a model tree (sim/src/formats/zipatch.rs)"],
        "C04" => vec!["tree equality oracle: files(T) == files(B); SimFs mutation index for 'create never modifies A or B'"],
        "C17" => vec!["C03's reference model for 'success implies the reference tree'; no functional model for the buffer parsers (crash, time and memory monitors only)"],
        "C18" => vec!["none functional (crash, time, memory and leak monitors only); valid objects from the independent archive writer and per-format asset builders"],
        _ => vec![],
    }
}

pub fn assumptions(prop: &str) -> Vec<&'static str> {
    let mut v = vec![
        "SimFs models POSIX file semantics faithfully where physis can reach them (checked by `sim selftest fidelity` against the real file system for fault-free scenarios)",
        "sampling, not proof: a clean batch is evidence for the seeds and bounds reported",
    ];
    match prop {
        "C01" => v.push("each path is stored in at most one chunk of its (repository, category) and no two stored or queried paths collide in either hash (screened by the generator); header details no property sentence speaks about are written so that both physis' and the public layout's reading accept them (DESIGN Appendix A)"),
        "C02" => v.push("edge-geometry sections are empty, every non-empty section holds at least one byte, stored blocks are padded to a multiple of 128 bytes"),
        "C03" => v.push("patches stay inside the constrained space where the references agree (DESIGN §4 C03): T before the first block command, block commands aim at an existing repository directory, no empty file blocks, no file/directory name clashes; ADIR/DELD directories, the leaf of F-M without trailing slash and an emptied expansion directory are unconstrained"),
        "C04" => v.push("trees hold regular files only, ASCII names, no file/directory name clash between A and B, no empty files in B (as the statement's quantifier says)"),
        "C17" => v.push("allocation bound per operation: 8 MiB + 1100 x bytes of input visible to it (deflate expands by at most 1032:1); step budget 1,000,000 + 16 x input bytes file-system calls; watchdog 20 s per scenario (replayed alone before it counts)"),
        "C18" => v.push("allocation bound per operation: 8 MiB + 1100 x bytes of input visible to it (deflate expands by at most 1032:1); leak = equal positive growth of live heap bytes across repetitions 2,3,4 of the same failed call"),
        _ => {}
    }
    v
}
