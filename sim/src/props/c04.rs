//! C04 — a created patch turns the old tree into the new tree; creating never modifies A or B.

use super::{draw_cfg_benign, Body, Doc};
use crate::formats::Bytes;
use crate::harness::{Cfg, Harness, RunResult, Tier};
use crate::rng::{fnv1a, Rng, FNV_INIT};
use crate::simfs::{Benign, Call, Hostile, IoFault};
use physis::patch::ZiPatch;
use serde::{Deserialize, Serialize};
use std::collections::BTreeMap;

#[derive(Clone, Debug, PartialEq, Eq, Serialize, Deserialize)]
pub struct FileEnt {
    pub path: String,
    pub data: Bytes,
}

#[derive(Clone, Debug, Serialize, Deserialize)]
pub struct C04Doc {
    pub a: Vec<FileEnt>,
    pub b: Vec<FileEnt>,
    /// how the two roots are spelled when handed to `create`: bit 0 = A with a trailing slash,
    /// bit 1 = B with a trailing slash
    #[serde(default)]
    pub spell: u8,
}

pub const PROBES: [&str; 13] = [
    "file_only_in_a",
    "file_only_in_b",
    "file_in_both_same",
    "file_in_both_changed",
    "nesting_depth_4",
    "size_at_128_boundary",
    "size_at_32000_marker",
    "size_over_64k",
    "listing_permuted",
    "short_or_interrupted_io",
    "file_name_extends_sibling_directory_name",
    "hostile_completion_fired_during_apply",
    "apply_failed_under_fault",
];

const BOUNDARY_SIZES: [usize; 22] = [
    1, 15, 16, 111, 112, 113, 127, 128, 129, 143, 144, 145, 255, 256, 31999, 32000, 32001, 65535, 65536,
    65537, 15999, 16000,
];

const NAMES: [&str; 12] = [
    "a", "b", "data", "x.dat", "y.bin", "game", "boot", "file1", "file2", "readme.txt", "Z", "k_9",
];

fn gen_path(r: &mut Rng, depth: usize) -> String {
    let mut parts = vec![];
    for _ in 0..depth {
        // some directory names are string prefixes of a sibling's name ("d1" and "d10")
        let suffix = if r.chance(1, 4) { *r.pick(&["0", "x", "_a"]) } else { "" };
        parts.push(format!("d{}{}", r.below(3), suffix));
    }
    if r.chance(1, 5) {
        // a file whose name extends a sibling directory's name by a character that sorts before
        // '/' ("d1.ver" next to "d1/"): byte-wise and component-wise path orders disagree here
        parts.push(format!("d{}{}{}", r.below(3), r.pick(&[".", "-", " ", "+", "#", "!"]), r.pick(&["ver", "bak", "x", "0"])));
    } else {
        parts.push(format!("{}{}", r.pick(&NAMES), r.below(4)));
    }
    // any ASCII byte but '/' and NUL is an ordinary name character on this file system: some names
    // carry one that means something elsewhere (a Windows separator, a drive colon, a wildcard,
    // a quote, a space); some are long, so that a nested path exceeds 260 bytes
    for part in parts.iter_mut() {
        if r.chance(1, 10) {
            let c = *r.pick(&['\\', ' ', '\'', '"', '%', '&', '(', ';', '~', ':', '*', '?', '<', '|', '$', '`', '=', ',', '[', '{', '^', '@']);
            let at = r.usize_below(part.len() + 1);
            part.insert(at, c);
        }
        if r.chance(1, 16) {
            // hidden-file style names (never "." or ".." themselves)
            part.insert_str(0, *r.pick(&[".", "..", "...", "._"]));
        }
        if r.chance(1, 14) {
            let n = r.range(60, 110) as usize;
            part.push('_');
            for _ in 0..n {
                part.push(*r.pick(&['l', 'o', 'n', 'g', '0']));
            }
        }
    }
    parts.join("/")
}

fn gen_size(r: &mut Rng, tier: Tier) -> usize {
    match r.below(10) {
        0..=2 => *r.pick(&BOUNDARY_SIZES),
        3 => {
            let max = if tier == Tier::Thorough { 300 << 10 } else { 100 << 10 };
            r.range(1, max) as usize
        }
        _ => 1 + r.log_size(4096) as usize,
    }
}

/// No path may be a directory prefix of another (a file and a directory of one name).
fn prefix_free(paths: &[String], cand: &str) -> bool {
    for p in paths {
        if p == cand {
            return false;
        }
        if p.starts_with(&format!("{}/", cand)) || cand.starts_with(&format!("{}/", p)) {
            return false;
        }
    }
    true
}

pub fn generate(seed: u64, tier: Tier) -> Doc {
    let mut r = Rng::derive(seed, 0xC04);
    let (cfg, benign) = draw_cfg_benign(&mut r);
    let max_files = if tier == Tier::Thorough { 30 } else { 12 };
    let n = r.log_size(max_files) as usize;
    let mut paths: Vec<String> = vec![];
    let mut a = vec![];
    let mut b = vec![];
    let mut big_budget = 2; // at most two large files per scenario keeps runs short
    for _ in 0..n {
        let depth = r.below(5) as usize;
        let mut p = gen_path(&mut r, depth);
        if !paths.is_empty() && r.chance(1, 8) {
            // a path that differs from an earlier one in letter case only (in one component, or
            // throughout) is another file on this file system
            let q = r.pick(&paths).clone();
            let flipped: String = if r.chance(1, 2) {
                q.chars().map(|c| if c.is_ascii_lowercase() { c.to_ascii_uppercase() } else { c.to_ascii_lowercase() }).collect()
            } else {
                let comps: Vec<&str> = q.split('/').collect();
                let k = r.usize_below(comps.len());
                comps
                    .iter()
                    .enumerate()
                    .map(|(i, c)| if i == k { c.chars().map(|ch| if ch.is_ascii_lowercase() { ch.to_ascii_uppercase() } else { ch.to_ascii_lowercase() }).collect::<String>() } else { c.to_string() })
                    .collect::<Vec<_>>()
                    .join("/")
            };
            if flipped != q {
                p = flipped;
            }
        }
        if !prefix_free(&paths, &p) {
            continue;
        }
        paths.push(p.clone());
        let mut size = gen_size(&mut r, tier);
        if size > 20_000 {
            if big_budget == 0 {
                size = 1 + size % 4096;
            } else {
                big_budget -= 1;
            }
        }
        let fill = r.next_u64();
        let da = Bytes::Fill { len: size, fill };
        match r.below(4) {
            0 => a.push(FileEnt { path: p, data: da }),
            1 => b.push(FileEnt { path: p, data: da }),
            2 => {
                a.push(FileEnt { path: p.clone(), data: da.clone() });
                b.push(FileEnt { path: p, data: da });
            }
            _ => {
                // changed: sometimes same length with different bytes, sometimes another length
                let nb = if r.chance(1, 2) {
                    Bytes::Fill { len: size, fill: fill ^ 0x5555_0000_0000 | 4 }
                } else {
                    let s2 = gen_size(&mut r, Tier::Quick).min(20_000);
                    Bytes::Fill { len: s2, fill: r.next_u64() }
                };
                a.push(FileEnt { path: p.clone(), data: da });
                b.push(FileEnt { path: p, data: nb });
            }
        }
    }
    // flagged extension: one hostile completion while the created patch is being applied; apply
    // must then fail, or the tree must still be exactly B's
    let mut io_faults = vec![];
    let mut cfg = cfg;
    if r.chance(1, 6) {
        let (call, kind, nth) = match r.below(6) {
            0 => (Call::RemoveFile, *r.pick(&[Hostile::Eacces, Hostile::Erofs, Hostile::Eio]), r.below(3) as u32),
            1 => (Call::Open, *r.pick(&[Hostile::Eacces, Hostile::Emfile, Hostile::Enospc]), 1 + r.below(6) as u32),
            2 => (Call::CreateDirAll, *r.pick(&[Hostile::Eacces, Hostile::Enospc, Hostile::Eexist]), r.below(4) as u32),
            3 => (Call::SetLen, Hostile::Eio, r.below(3) as u32),
            4 => (Call::Read, *r.pick(&[Hostile::Eio, Hostile::EarlyEof]), r.log_size(3000) as u32),
            _ => (Call::Write, *r.pick(&[Hostile::Enospc, Hostile::Eio, Hostile::WriteZero]), r.below(8) as u32),
        };
        io_faults.push(IoFault { op: 1, call, nth, kind, sticky: false, path_contains: None });
        cfg = Cfg::Hostile;
    }
    let spell = if r.chance(1, 5) { 1 + r.below(3) as u8 } else { 0 };
    Doc { prop: "C04".into(), seed, cfg, benign, io_faults, body: Body::C04(C04Doc { a, b, spell }) }
}

pub fn directed() -> Vec<Doc> {
    let f = |p: &str, len: usize, fill: u64| FileEnt {
        path: p.to_string(),
        data: Bytes::Fill { len, fill },
    };
    let body = C04Doc {
        a: vec![
            f("only_a.bin", 100, 1),
            f("same.bin", 128, 2),
            f("changed.bin", 32000, 3),
            f("d0/d1/d2/d3/deep_a", 7, 4),
            f("d1.ver", 20, 11),
            f("d0/d2-old", 5, 14),
        ],
        b: vec![
            f("only_b.bin", 65537, 5),
            f("same.bin", 128, 2),
            f("changed.bin", 31999, 7),
            f("d0/d1/d2/d3/deep_b", 129, 8),
            f("d0/second", 3, 9),
            f("d1/third", 3, 10),
            f("d1.ver", 20, 11),
            f("d0/d2/inner", 5, 12),
            f("d0/d2-old", 5, 13),
        ],
        spell: 0,
    };
    let mut out = vec![];
    for (i, (cfg, benign)) in [
        (Cfg::Quiet, Benign::quiet()),
        (
            Cfg::Benign,
            Benign {
                short_read: 128,
                eintr_read: 64,
                short_write: 128,
                eintr_write: 64,
                one_byte_reads: false,
                one_byte_writes: false,
                permute_dirs: true,
            },
        ),
    ]
    .into_iter()
    .enumerate()
    {
        out.push(Doc {
            prop: "C04".into(),
            seed: 0xD1EC7ED0 + i as u64,
            cfg,
            benign,
            io_faults: vec![],
            body: Body::C04(body.clone()),
        });
    }
    for (i, spell) in [1u8, 2, 3].into_iter().enumerate() {
        out.push(Doc {
            prop: "C04".into(),
            seed: 0xD1EC7ED0 + 2 + i as u64,
            cfg: Cfg::Quiet,
            benign: Benign::quiet(),
            io_faults: vec![],
            body: Body::C04(C04Doc { spell, ..body.clone() }),
        });
    }
    out
}

fn shape_hash(b: &C04Doc) -> u64 {
    let mut h = fnv1a(FNV_INIT, &[b.spell]);
    for (tag, list) in [(1u8, &b.a), (2u8, &b.b)] {
        for e in list {
            h = fnv1a(h, &[tag]);
            h = fnv1a(h, e.path.as_bytes());
            h = fnv1a(h, &(e.data.len() as u64).to_le_bytes());
        }
    }
    h
}

const A: &str = "/w/a";
const B: &str = "/w/b";
const T: &str = "/w/t";
const P: &str = "/w/p/test.patch";

pub fn run(doc: &Doc, body: &C04Doc, trace: bool) -> RunResult {
    let mut h = Harness::new("C04", doc.seed, PROBES.len(), trace);
    let fs = h.fs.clone();
    fs.h_mkdirs(A);
    fs.h_mkdirs(B);
    fs.h_mkdirs(T);
    fs.h_mkdirs("/w/p");
    let mut in_a: BTreeMap<&str, Vec<u8>> = BTreeMap::new();
    let mut in_b: BTreeMap<&str, Vec<u8>> = BTreeMap::new();
    let mut input_bytes = 0u64;
    for e in &body.a {
        let d = e.data.get();
        input_bytes += d.len() as u64;
        fs.h_write(&format!("{}/{}", A, e.path), d.clone());
        fs.h_write(&format!("{}/{}", T, e.path), d.clone());
        in_a.insert(&e.path, d);
    }
    for e in &body.b {
        let d = e.data.get();
        input_bytes += d.len() as u64;
        fs.h_write(&format!("{}/{}", B, e.path), d.clone());
        in_b.insert(&e.path, d);
    }
    // probes (harness side)
    for (p, d) in &in_a {
        match in_b.get(p) {
            None => h.probe(0),
            Some(db) if db == d => h.probe(2),
            Some(_) => h.probe(3),
        }
    }
    for (p, d) in &in_b {
        if !in_a.contains_key(p) {
            h.probe(1);
        }
        if p.matches('/').count() >= 4 {
            h.probe(4);
        }
        let n = d.len();
        if (n + 16) % 128 <= 1 || (n + 16) % 128 == 127 || n % 128 <= 1 || n % 128 == 127 {
            h.probe(5);
        }
        if (31999..=32001).contains(&n) {
            h.probe(6);
        }
        if n > 65536 {
            h.probe(7);
        }
    }
    {
        let all: Vec<&str> = in_a.keys().chain(in_b.keys()).copied().collect();
        let mut hit = false;
        for f in &all {
            // f = "<parent>/dK<c>rest" with c < '/', and some other path lies under "<parent>/dK/"
            let (parent, name) = match f.rfind('/') {
                Some(p) => (&f[..p + 1], &f[p + 1..]),
                None => ("", *f),
            };
            if name.len() > 2 && name.starts_with('d') && name.as_bytes()[2] < b'/' {
                let dir = format!("{}{}/", parent, &name[..2]);
                if all.iter().any(|o| o.starts_with(&dir)) {
                    hit = true;
                }
            }
        }
        if hit {
            h.probe(10);
        }
    }
    let class_of = |p: &str| -> &'static str {
        match (in_a.get(p), in_b.get(p)) {
            (Some(_), None) => "only-in-A",
            (None, Some(_)) => "only-in-B",
            (Some(x), Some(y)) if x == y => "in-both-same",
            (Some(_), Some(_)) => "in-both-changed",
            _ => "in-neither",
        }
    };

    h.set_policy(&doc.benign, &doc.io_faults);
    let dig_a = fs.digest(A);
    let dig_b = fs.digest(B);
    fs.clear_mutations();

    // op 0: create
    let root_a = if body.spell & 1 != 0 { format!("{}/", A) } else { A.to_string() };
    let root_b = if body.spell & 2 != 0 { format!("{}/", B) } else { B.to_string() };
    let patch = h.op(0, "ZiPatch::create", input_bytes, || ZiPatch::create(&root_a, &root_b)).done();
    let muts = fs.mutations();
    if let Some(m) = muts.iter().find(|m| m.path.starts_with(A) || m.path.starts_with(B) || m.path.starts_with(T)) {
        h.violate(
            &format!("create-mutates|{:?}", m.kind),
            format!("ZiPatch::create performed {:?} on {}", m.kind, m.path),
        );
    }
    if fs.digest(A) != dig_a || fs.digest(B) != dig_b {
        h.violate("create-mutates|digest", "tree A or B differs after ZiPatch::create".into());
    }
    let patch = match patch {
        Some(Some(p)) => Some(p),
        Some(None) => {
            h.violate("create-none", "ZiPatch::create returned None for two readable trees".into());
            None
        }
        None => None,
    };
    if let (Some(patch), false) = (patch, h.failed()) {
        h.log(&format!("patch {} bytes {:016x}", patch.len(), fnv1a(FNV_INIT, &patch)));
        let plen = patch.len() as u64;
        fs.h_write(P, patch);
        // op 1: apply onto the copy of A
        let hostile_before = fs.stats(|s| s.hostile_fired.iter().sum::<u64>());
        let r = h.op(1, "ZiPatch::apply", plen + input_bytes, || ZiPatch::apply(T, P)).done();
        let fired = fs.stats(|s| s.hostile_fired.iter().sum::<u64>()) > hostile_before;
        if fired {
            h.probe(11);
        }
        let mut skip_tree = false;
        match r {
            Some(Ok(())) => {}
            Some(Err(_)) if fired => {
                // an I/O error may fail the application; nothing is demanded of the tree then
                h.probe(12);
                skip_tree = true;
            }
            Some(Err(e)) => h.violate(
                &format!("apply-err|{:?}", e),
                format!("applying the created patch failed with {:?}", e),
            ),
            None => {}
        }
        if !h.failed() && !skip_tree {
            let snap = fs.snapshot(T);
            let got: BTreeMap<&str, &Vec<u8>> = snap
                .iter()
                .filter_map(|(p, d)| d.as_ref().map(|d| (p.as_str(), d)))
                .collect();
            for (p, d) in &in_b {
                match got.get(p) {
                    None => {
                        h.violate(
                            &format!("{}tree-diff|missing|{}", if fired { "under-fault|" } else { "" }, class_of(p)),
                            format!("{} ({}) is absent after apply", p, class_of(p)),
                        );
                        break;
                    }
                    Some(g) if **g != *d => {
                        h.violate(
                            &format!("{}tree-diff|content|{}", if fired { "under-fault|" } else { "" }, class_of(p)),
                            format!(
                                "{} ({}) has {} bytes, expected {} bytes of B's content",
                                p,
                                class_of(p),
                                g.len(),
                                d.len()
                            ),
                        );
                        break;
                    }
                    _ => {}
                }
            }
            if !h.failed() {
                for (p, _) in &got {
                    if !in_b.contains_key(p) {
                        h.violate(
                            &format!("{}tree-diff|extra|{}", if fired { "under-fault|" } else { "" }, class_of(p)),
                            format!("{} ({}) is present after apply but not in B", p, class_of(p)),
                        );
                        break;
                    }
                }
            }
            h.log(&format!("tree {:016x}", fs.digest(T)));
        }
    }
    let (perm, nonfull) = fs.stats(|s| {
        let perm = s.fired[crate::simfs::Call::ReadDir.idx()][crate::simfs::Done::Permuted as usize];
        let mut nf = 0;
        for c in [crate::simfs::Call::Read, crate::simfs::Call::Write] {
            nf += s.fired[c.idx()][crate::simfs::Done::Short as usize]
                + s.fired[c.idx()][crate::simfs::Done::Eintr as usize];
        }
        (perm, nf)
    });
    if perm > 0 {
        h.probe(8);
    }
    if nonfull > 0 {
        h.probe(9);
    }
    let classes: u64 = (0..4).map(|i| ((h.probes[i] > 0) as u64) << i).sum();
    h.state(&[classes, (perm > 0) as u64, (nonfull > 0) as u64, body.b.len().min(8) as u64]);
    h.finish(doc.cfg, shape_hash(body))
}

pub fn shrink(b: &C04Doc) -> Vec<C04Doc> {
    let mut out = vec![];
    if b.spell != 0 {
        let mut n = b.clone();
        n.spell = 0;
        out.push(n);
    }
    for i in 0..b.a.len() {
        let mut n = b.clone();
        n.a.remove(i);
        out.push(n);
    }
    for i in 0..b.b.len() {
        let mut n = b.clone();
        n.b.remove(i);
        out.push(n);
    }
    for (which, list) in [(0, &b.a), (1, &b.b)] {
        for (i, e) in list.iter().enumerate() {
            let len = e.data.len();
            for nl in [1usize, len / 2, len.saturating_sub(1)] {
                if nl >= 1 && nl < len {
                    let mut n = b.clone();
                    let tgt = if which == 0 { &mut n.a[i] } else { &mut n.b[i] };
                    tgt.data = tgt.data.shrink_to(nl);
                    out.push(n);
                }
            }
            if e.path.contains('/') {
                let mut n = b.clone();
                let short = e.path.rsplit('/').next().unwrap().to_string();
                let all: Vec<String> = n.a.iter().chain(n.b.iter()).map(|x| x.path.clone()).collect();
                if !all.contains(&short) {
                    // rename consistently in both trees
                    for x in n.a.iter_mut().chain(n.b.iter_mut()) {
                        if x.path == e.path {
                            x.path = short.clone();
                        }
                    }
                    out.push(n);
                }
            }
        }
    }
    out
}
