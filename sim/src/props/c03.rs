//! C03 — applying a ZiPatch has exactly the reference effect on the install.

use super::c04::FileEnt;
use super::{draw_cfg_benign, Body, Doc};
use crate::formats::zipatch::{
    dat_name, encode_patch, expansion_folder, index_name, Chunk, Encoded, FileBlock, ModelTree, KIND_NAMES,
};
use crate::formats::{Bytes, Mode};
use crate::harness::{Cfg, Harness, RunResult, Tier};
use crate::rng::{fnv1a, Rng, FNV_INIT};
use crate::simfs::{Benign, Call, Done, Mutation};
use physis::bootdata::BootData;
use physis::common::Platform;
use physis::gamedata::GameData;
use physis::patch::ZiPatch;
use serde::{Deserialize, Serialize};
use std::collections::BTreeMap;

#[derive(Clone, Copy, Debug, PartialEq, Eq, Serialize, Deserialize)]
pub enum Via {
    Direct,
    GameData,
    BootData,
}

#[derive(Clone, Debug, Serialize, Deserialize)]
pub struct C03Doc {
    pub via: Via,
    pub pre: Vec<FileEnt>,
    pub pre_dirs: Vec<String>,
    pub patches: Vec<Vec<Chunk>>,
    /// history: before the patches proper, patch `.0` cut off after `.1` bytes is applied to an
    /// unrelated scratch directory (and must fail there); the real applications that follow must
    /// not be affected by it
    #[serde(default)]
    pub failed_prelude: Option<(usize, usize)>,
}

// probes: one per chunk kind (17), then the named ones
pub const PROBES: [&str; 33] = [
    "applied_FHDR2",
    "applied_FHDR3",
    "applied_APLY",
    "applied_ADIR",
    "applied_DELD",
    "applied_T",
    "applied_X",
    "applied_I",
    "applied_A",
    "applied_D",
    "applied_E",
    "applied_H",
    "applied_F-A",
    "applied_F-D",
    "applied_F-R",
    "applied_F-M",
    "applied_EOF",
    "deflated_file_block",
    "multi_block_add_file",
    "add_file_at_offset_gt_0",
    "delete_file_absent",
    "platform_not_win32",
    "second_target_info",
    "wipe_over_64k",
    "short_write_fired",
    "chain_length_3",
    "via_gamedata",
    "via_bootdata",
    "add_data_onto_existing_file",
    "header_update_index_file",
    "short_read_of_patch_fired",
    "systematic_sequence",
    "real_apply_after_failed_apply_elsewhere",
];

pub const DATA: &str = "/w/data";
pub const PATCHES: &str = "/w/patches";

const CATS: [u16; 15] = [0, 1, 2, 3, 4, 5, 6, 7, 8, 9, 0x0a, 0x0b, 0x0c, 0x12, 0x13];

fn file_blocks(r: &mut Rng, total: usize) -> Vec<FileBlock> {
    // an empty file carries no block; no block is ever empty (the size-driven and the
    // length-driven readers only agree on such patches)
    let mut blocks = vec![];
    if total == 0 {
        return blocks;
    }
    let mut left = total;
    let nb = (1 + r.below(4) as usize).min(total);
    for i in 0..nb {
        let remaining_blocks = nb - i - 1;
        let len = if i + 1 == nb { left } else { r.range(1, (left - remaining_blocks) as u64) as usize };
        left -= len;
        let mode = if len <= 16000 {
            match r.below(6) {
                0 | 1 => Mode::Raw,
                2 => Mode::Miniz(1 + r.below(9) as u8),
                3 => Mode::Miniz(6),
                4 => Mode::Stored,
                _ => Mode::Fixed,
            }
        } else {
            Mode::Raw
        };
        // fixed-Huffman literals expand random data by up to 9/8: keep below the 32000 marker
        let mode = if mode == Mode::Fixed && len > 14000 { Mode::Stored } else { mode };
        blocks.push(FileBlock { data: Bytes::Fill { len, fill: r.next_u64() }, mode });
    }
    blocks
}

struct Gen<'a> {
    r: &'a mut Rng,
    model: ModelTree,
    targets: Vec<(u16, u16, u32)>,
    big: bool,
    missing_folders: Vec<String>,
    fresh: u32,
}

impl<'a> Gen<'a> {
    fn target(&mut self) -> (u16, u16, u32) {
        *self.r.pick(&self.targets)
    }

    fn offset(&mut self) -> u32 {
        if self.big && self.r.chance(1, 4) {
            self.r.range(0, 8192) as u32
        } else {
            self.r.range(0, 48) as u32
        }
    }

    fn count(&mut self) -> u32 {
        if self.r.chance(1, 12) {
            self.r.range(500, 640) as u32
        } else {
            self.r.range(1, 12) as u32
        }
    }

    /// A/D/E/H need the repository directory to exist in both semantics.
    fn ensure_folder(&mut self, sub: u16, out: &mut Vec<Chunk>) {
        let folder = expansion_folder(sub >> 8);
        if let Some(pos) = self.missing_folders.iter().position(|f| *f == folder) {
            self.missing_folders.remove(pos);
            self.fresh += 1;
            let c = Chunk::AddFile {
                path: format!("sqpack/{}/keep{}.bin", folder, self.fresh),
                offset: 0,
                expansion: sub >> 8,
                blocks: vec![FileBlock { data: Bytes::Fill { len: 5, fill: 3 }, mode: Mode::Raw }],
            };
            self.model.apply(&c);
            out.push(c);
        }
    }

    fn path_ok_for_file(&self, p: &str) -> bool {
        if self.model.dirs.contains(p) || self.model.unconstrained.contains(p) {
            return false;
        }
        // no existing file or unconstrained dir may be an ancestor
        let mut cur = String::new();
        for c in p.split('/') {
            if !cur.is_empty() {
                if self.model.files.contains_key(&cur) || self.model.unconstrained.contains(&cur) {
                    return false;
                }
                cur.push('/');
            }
            cur.push_str(c);
        }
        true
    }

    fn some_file_path(&mut self) -> String {
        let (main, sub, file) = self.target();
        let plat = self.model.platform;
        match self.r.below(9) {
            0 => dat_name(plat, main, sub, file),
            1 => index_name(plat, main, sub, if self.r.chance(1, 2) { 0 } else { 2 }),
            2 => format!("sqpack/{}/{}.ver", expansion_folder(sub >> 8), expansion_folder(sub >> 8)),
            3 => "ffxivgame.ver".to_string(),
            4 => format!("game/ffxiv_dx{}.exe", self.r.range(9, 11)),
            5 => format!("boot/d{}/e{}/f{}.bin", self.r.below(2), self.r.below(2), self.r.below(3)),
            6 => format!("top{}.dat", self.r.below(4)),
            7 => format!("sqpack/{}/extra{}.dat", expansion_folder(sub >> 8), self.r.below(3)),
            _ => {
                // an existing file, if any
                let keys: Vec<&String> = self.model.files.keys().collect();
                if keys.is_empty() {
                    "ffxivgame.ver".to_string()
                } else {
                    (*self.r.pick(&keys)).clone()
                }
            }
        }
    }

    fn command(&mut self, out: &mut Vec<Chunk>) {
        let c = match self.r.below(20) {
            0..=3 => {
                let (main, sub, file) = self.target();
                self.ensure_folder(sub, out);
                let mut blocks = if self.r.chance(1, 10) { self.r.range(100, 600) } else { self.r.range(1, 10) };
                let delete_blocks = if self.r.chance(1, 3) { 0 } else { self.count() };
                if delete_blocks > 0 && self.r.chance(1, 8) {
                    // an `A` that carries no data and only clears: the blocks to clear start at
                    // the stated offset all the same
                    blocks = 0;
                }
                Chunk::AddData {
                    main,
                    sub,
                    file,
                    block_offset: self.offset(),
                    data: Bytes::Fill { len: blocks as usize * 128, fill: self.r.next_u64() },
                    delete_blocks,
                }
            }
            4 | 5 => {
                let (main, sub, file) = self.target();
                self.ensure_folder(sub, out);
                Chunk::DeleteData { main, sub, file, block_offset: self.offset(), blocks: self.count() }
            }
            6 | 7 => {
                let (main, sub, file) = self.target();
                self.ensure_folder(sub, out);
                Chunk::ExpandData { main, sub, file, block_offset: self.offset(), blocks: self.count() }
            }
            8 | 9 => {
                let (main, sub, file) = self.target();
                self.ensure_folder(sub, out);
                let index = self.r.chance(1, 2);
                Chunk::HeaderUpdate {
                    index,
                    kind: *self.r.pick(&['V', 'I', 'D']),
                    main,
                    sub,
                    file: if index { *self.r.pick(&[0u32, 0, 2, 1]) } else { file },
                    data: Bytes::Fill { len: 1024, fill: self.r.next_u64() },
                }
            }
            10..=13 => {
                let mut path = self.some_file_path();
                let mut tries = 0;
                while !self.path_ok_for_file(&path) && tries < 8 {
                    path = self.some_file_path();
                    tries += 1;
                }
                if !self.path_ok_for_file(&path) {
                    return;
                }
                let existing = self.model.files.get(&path).map(|f| f.len()).unwrap_or(0);
                let offset = match self.r.below(5) {
                    0 => existing as u64,
                    1 => self.r.range(0, existing as u64 + 200),
                    _ => 0,
                };
                let total = match self.r.below(8) {
                    0 => 0,
                    1 => self.r.range(30000, 65536) as usize,
                    2 => *self.r.pick(&[111usize, 112, 113, 127, 128, 129, 15999, 16000, 16001, 31999, 32000, 32001]),
                    _ => 1 + self.r.log_size(4000) as usize,
                };
                if path.starts_with("sqpack/") {
                    let folder = path.split('/').nth(1).unwrap().to_string();
                    self.missing_folders.retain(|f| *f != folder);
                }
                // a path may be written with a leading slash (or two): it still names a place
                // under the directory that is being patched
                let path = if self.r.chance(1, 16) { format!("{}{}", self.r.pick(&["/", "//"]), path) } else { path };
                Chunk::AddFile { path, offset, expansion: 0, blocks: file_blocks(self.r, total) }
            }
            14 | 15 => {
                // delete a present file, or an absent one inside an existing directory
                let keys: Vec<String> = self.model.files.keys().cloned().collect();
                let path = if !keys.is_empty() && self.r.chance(2, 3) {
                    self.r.pick(&keys).clone()
                } else {
                    let dirs: Vec<String> = self
                        .model
                        .dirs
                        .iter()
                        .filter(|d| !self.model.unconstrained.contains(*d))
                        .cloned()
                        .collect();
                    let name = format!("absent{}.bin", self.r.below(3));
                    // an absent name that differs from a present file's in letter case only
                    let flip = |s: &str| -> String { s.chars().map(|c| if c.is_ascii_lowercase() { c.to_ascii_uppercase() } else { c.to_ascii_lowercase() }).collect() };
                    let cased: Vec<String> = keys
                        .iter()
                        .map(|k| match k.rfind('/') {
                            Some(p) => format!("{}/{}", &k[..p], flip(&k[p + 1..])),
                            None => flip(k),
                        })
                        .filter(|c| !self.model.files.contains_key(c) && !self.model.dirs.contains(c))
                        .collect();
                    if !cased.is_empty() && self.r.chance(1, 2) {
                        self.r.pick(&cased).clone()
                    } else if dirs.is_empty() || self.r.chance(1, 3) {
                        name
                    } else {
                        format!("{}/{}", self.r.pick(&dirs), name)
                    }
                };
                if self.model.dirs.contains(&path) || !self.path_ok_for_file(&path) && !self.model.files.contains_key(&path) {
                    return;
                }
                let path = if self.r.chance(1, 16) { format!("/{}", path) } else { path };
                Chunk::DeleteFile { path, expansion: 0 }
            }
            16 => {
                let exp = (self.target().1 >> 8) as u16;
                let folder = expansion_folder(exp);
                if !self.missing_folders.contains(&folder) {
                    self.missing_folders.push(folder);
                }
                Chunk::RemoveAll { expansion: exp }
            }
            17 => {
                let p = format!("mk/m{}/n{}{}", self.r.below(2), self.r.below(2), if self.r.chance(1, 2) { "/" } else { "" });
                if !self.path_ok_for_file(p.trim_end_matches('/')) && !self.model.dirs.contains(p.trim_end_matches('/')) {
                    return;
                }
                Chunk::MakeDirTree { path: p, expansion: 0 }
            }
            18 => match self.r.below(4) {
                0 => Chunk::PatchInfo { status: self.r.below(3) as u8, version: 1, install_size: self.r.next_u64() >> 20 },
                1 => Chunk::Index {
                    add: self.r.chance(1, 2),
                    synonym: self.r.chance(1, 4),
                    hash: self.r.next_u64(),
                    block_offset: self.r.next_u32() >> 8,
                    block_number: self.r.below(100) as u32,
                },
                2 => Chunk::Adir { name: format!("adir_{}", self.r.below(4)) },
                _ => Chunk::Deld { name: format!("adir_{}", self.r.below(4)) },
            },
            _ => Chunk::Target {
                platform: self.r.below(3) as u16,
                region: if self.r.chance(1, 5) { 1 } else { -1 },
                debug: self.r.chance(1, 6),
                version: self.r.below(4) as u16,
                deleted: self.r.next_u64() >> 30,
                seek: self.r.below(1000),
            },
        };
        self.model.apply(&c);
        self.model.settle();
        out.push(c);
    }
}

fn header_chunks(r: &mut Rng, out: &mut Vec<Chunk>) {
    if r.chance(1, 2) {
        out.push(Chunk::Fhdr3 {
            kind: if r.chance(1, 2) { "DIFF".into() } else { "HIST".into() },
            counters: (0..13).map(|_| r.below(50) as u32).collect(),
        });
    } else {
        out.push(Chunk::Fhdr2 { kind: "DIFF".into(), entry_files: r.below(100) as u32 });
    }
    if r.chance(2, 3) {
        out.push(Chunk::Aply { option: 1, value: r.below(2) as u32 });
        out.push(Chunk::Aply { option: 2, value: r.below(2) as u32 });
    }
    if r.chance(1, 4) {
        out.push(Chunk::Adir { name: format!("adir_{}", r.below(4)) });
    }
}

pub fn initial_model(pre: &[FileEnt], pre_dirs: &[String]) -> ModelTree {
    let mut m = ModelTree::default();
    for d in pre_dirs {
        m.add_dir_chain(d);
    }
    for e in pre {
        if let Some(p) = e.path.rfind('/') {
            m.add_dir_chain(&e.path[..p]);
        }
        m.files.insert(e.path.clone(), e.data.get());
    }
    m
}

/// Makes one A/D/E/F-A command of the patch address a position beyond the largest file the
/// simulated disk holds (96 MiB) - a 32-bit block offset (x 128: up to 512 GiB) or a 64-bit file
/// offset may. The reference cannot apply such a patch on this disk (`ModelTree::blocked`); the
/// write fails with ENOSPC and apply has to report an error, not success.
pub fn address_beyond_disk(r: &mut Rng, patch: &mut [Chunk]) -> bool {
    let limit_blocks = (crate::simfs::MAX_FILE >> 7) as u32;
    let cands: Vec<usize> = patch
        .iter()
        .enumerate()
        .filter(|(_, c)| matches!(c, Chunk::AddData { .. } | Chunk::DeleteData { .. } | Chunk::ExpandData { .. } | Chunk::AddFile { .. }))
        .map(|(i, _)| i)
        .collect();
    if cands.is_empty() {
        return false;
    }
    let ci = *r.pick(&cands);
    match &mut patch[ci] {
        Chunk::AddData { block_offset, .. } | Chunk::DeleteData { block_offset, .. } | Chunk::ExpandData { block_offset, .. } => {
            let old = *block_offset;
            *block_offset = match r.below(8) {
                0 => 1 << 25,
                1 => (1 << 25) + 1,
                2 => (1u32 << 25).wrapping_add(old),
                3 => 1 << 26,
                4 => 0x7FFF_FFFF,
                5 => 0xFFFF_FFFF,
                6 => limit_blocks,
                _ => limit_blocks + r.below(1 << 20) as u32,
            };
        }
        Chunk::AddFile { offset, .. } => {
            *offset = match r.below(4) {
                0 => 1 << 32,
                1 => (1u64 << 32) + *offset,
                2 => 1 << 40,
                _ => crate::simfs::MAX_FILE + r.below(1 << 20),
            };
        }
        _ => {}
    }
    true
}

pub fn generate(seed: u64, tier: Tier) -> Doc {
    let mut r = Rng::derive(seed, 0xC03);
    let (cfg, benign) = draw_cfg_benign(&mut r);
    let via = match r.below(5) {
        0 => Via::GameData,
        1 => Via::BootData,
        _ => Via::Direct,
    };
    let nt = 1 + r.below(3) as usize;
    let mut targets = vec![];
    for _ in 0..nt {
        let exp = if r.chance(1, 2) { 0 } else { r.range(1, 9) as u16 };
        let chunk = if r.chance(2, 3) { 0 } else { r.range(1, 9) as u16 };
        // data file numbers are 0..7 in retail archives, but the command carries 32 bits
        let file = if r.chance(1, 6) { r.range(8, 40) as u32 } else { r.below(8) as u32 };
        // the category field has 16 bits; one target in sixteen uses an id above 0xff
        let main = if r.chance(1, 16) { r.range(0x100, 0xFFFF) as u16 } else { *r.pick(&CATS) };
        targets.push((main, (exp << 8) | chunk, file));
    }
    // pre-existing tree
    let mut pre: Vec<FileEnt> = vec![];
    let mut pre_dirs: Vec<String> = vec!["sqpack".into()];
    for (main, sub, file) in &targets {
        pre_dirs.push(format!("sqpack/{}", expansion_folder(sub >> 8)));
        for plat in 0..3u16 {
            if r.chance(1, 3) {
                pre.push(FileEnt {
                    path: dat_name(plat, *main, *sub, *file),
                    data: Bytes::Fill { len: r.log_size(6000) as usize, fill: r.next_u64() },
                });
            }
        }
        if r.chance(1, 3) {
            pre.push(FileEnt {
                path: index_name(0, *main, *sub, 0),
                data: Bytes::Fill { len: 2048 + r.log_size(2000) as usize, fill: r.next_u64() },
            });
        }
    }
    for _ in 0..r.below(4) {
        let p = match r.below(4) {
            0 => "ffxivgame.ver".to_string(),
            1 => format!("game/ffxiv_dx{}.exe", r.range(9, 11)),
            2 => format!("top{}.dat", r.below(4)),
            _ => format!("boot/d{}/e{}/f{}.bin", r.below(2), r.below(2), r.below(3)),
        };
        if !pre.iter().any(|e| e.path == p) {
            pre.push(FileEnt { path: p, data: Bytes::Fill { len: r.log_size(3000) as usize, fill: r.next_u64() } });
        }
    }
    if via == Via::BootData {
        pre.push(FileEnt { path: "ffxivboot.ver".into(), data: Bytes::Hex(crate::formats::hex(b"2012.01.01.0000.0000")) });
    }
    let model = initial_model(&pre, &pre_dirs);
    let n_patches = match r.below(20) {
        0..=11 => 1,
        12..=16 => 2,
        _ => 3,
    };
    let max_cmds = if tier == Tier::Thorough { 24 } else { 14 };
    let big = r.chance(1, 16);
    let mut g = Gen { r: &mut r, model, targets, big, missing_folders: vec![], fresh: 0 };
    let mut patches = vec![];
    for _ in 0..n_patches {
        let mut chunks = vec![];
        header_chunks(g.r, &mut chunks);
        for c in &chunks {
            g.model.apply(c);
        }
        let t = Chunk::Target {
            platform: if g.r.chance(3, 5) { 0 } else { g.r.range(1, 2) as u16 },
            region: -1,
            debug: false,
            version: 0,
            deleted: 0,
            seek: 0,
        };
        g.model.apply(&t);
        chunks.push(t);
        let n = 1 + g.r.below(max_cmds) as usize;
        for _ in 0..n {
            g.command(&mut chunks);
        }
        chunks.push(Chunk::Eof);
        patches.push(chunks);
    }
    let failed_prelude = if g.r.chance(1, 6) {
        let pi = g.r.usize_below(patches.len());
        let len = encode_patch(&patches[pi]).bytes.len();
        Some((pi, g.r.range(13, len as u64 - 5) as usize))
    } else {
        None
    };
    let mut patches = patches;
    if failed_prelude.is_none() && g.r.chance(1, 24) {
        let pi = g.r.usize_below(patches.len());
        address_beyond_disk(g.r, &mut patches[pi]);
    }
    let body = C03Doc { via, pre, pre_dirs, patches, failed_prelude };
    if let Some(w) = why_not(&body) {
        panic!("HARNESS: C03 generator produced a scenario outside the constrained space (seed {}): {}", seed, w);
    }
    Doc { prop: "C03".into(), seed, cfg, benign, io_faults: vec![], body: Body::C03(body) }
}

/// The 14-command concrete alphabet of the systematic part.
fn alphabet() -> Vec<Chunk> {
    let (m, s, f) = (0x0au16, 0u16, 0u32);
    let p = "sqpack/ffxiv/0a0000.win32.dat0".to_string();
    vec![
        Chunk::AddData { main: m, sub: s, file: f, block_offset: 0, data: Bytes::Fill { len: 256, fill: 11 }, delete_blocks: 1 },
        Chunk::AddData { main: m, sub: s, file: f, block_offset: 1, data: Bytes::Fill { len: 128, fill: 12 }, delete_blocks: 0 },
        Chunk::DeleteData { main: m, sub: s, file: f, block_offset: 0, blocks: 2 },
        Chunk::DeleteData { main: m, sub: s, file: f, block_offset: 2, blocks: 1 },
        Chunk::ExpandData { main: m, sub: s, file: f, block_offset: 1, blocks: 3 },
        Chunk::HeaderUpdate { index: false, kind: 'V', main: m, sub: s, file: f, data: Bytes::Fill { len: 1024, fill: 13 } },
        Chunk::HeaderUpdate { index: false, kind: 'D', main: m, sub: s, file: f, data: Bytes::Fill { len: 1024, fill: 14 } },
        Chunk::HeaderUpdate { index: true, kind: 'I', main: m, sub: s, file: f, data: Bytes::Fill { len: 1024, fill: 15 } },
        Chunk::AddFile { path: p.clone(), offset: 0, expansion: 0, blocks: vec![FileBlock { data: Bytes::Fill { len: 200, fill: 16 }, mode: Mode::Raw }] },
        Chunk::AddFile {
            path: p.clone(),
            offset: 100,
            expansion: 0,
            blocks: vec![
                FileBlock { data: Bytes::Fill { len: 180, fill: 17 }, mode: Mode::Miniz(6) },
                FileBlock { data: Bytes::Fill { len: 120, fill: 21 }, mode: Mode::Fixed },
            ],
        },
        Chunk::DeleteFile { path: p, expansion: 0 },
        Chunk::RemoveAll { expansion: 0 },
        Chunk::MakeDirTree { path: "mk/a/b/".into(), expansion: 0 },
        Chunk::Target { platform: 2, region: -1, debug: false, version: 0, deleted: 0, seek: 0 },
    ]
}

fn systematic_pre() -> (Vec<FileEnt>, Vec<String>) {
    (
        vec![
            FileEnt { path: "sqpack/ffxiv/0a0000.win32.dat0".into(), data: Bytes::Fill { len: 1000, fill: 5 } },
            FileEnt { path: "sqpack/ffxiv/other.dat".into(), data: Bytes::Fill { len: 77, fill: 6 } },
            FileEnt { path: "keep.txt".into(), data: Bytes::Fill { len: 9, fill: 7 } },
        ],
        vec!["sqpack".into(), "sqpack/ffxiv".into()],
    )
}

/// D after F-R without anything re-creating the directory: the references disagree on whether
/// the directory survives F-R, so the outcome is unconstrained; such sequences are skipped.
fn seq_is_constrained(seq: &[Chunk]) -> bool {
    let mut missing = false;
    for c in seq {
        match c {
            Chunk::RemoveAll { .. } => missing = true,
            Chunk::DeleteData { .. } if missing => return false,
            Chunk::AddData { .. } | Chunk::ExpandData { .. } | Chunk::HeaderUpdate { .. } => missing = false,
            Chunk::AddFile { path, .. } if path.starts_with("sqpack/ffxiv/") => missing = false,
            _ => {}
        }
    }
    true
}

pub fn directed() -> Vec<Doc> {
    let mut out = vec![];
    let mk = |seed: u64, cfg: Cfg, benign: Benign, body: C03Doc| Doc {
        prop: "C03".into(),
        seed,
        cfg,
        benign,
        io_faults: vec![],
        body: Body::C03(body),
    };
    let noisy = Benign {
        short_read: 100,
        eintr_read: 40,
        short_write: 128,
        eintr_write: 40,
        one_byte_reads: false,
        one_byte_writes: false,
        permute_dirs: true,
    };
    // 0: every command kind, chain of three, GameData
    let t = |p: u16| Chunk::Target { platform: p, region: -1, debug: false, version: 0, deleted: 0, seek: 0 };
    let p1 = vec![
        Chunk::Fhdr3 { kind: "DIFF".into(), counters: (0..13).collect() },
        Chunk::Aply { option: 1, value: 0 },
        Chunk::Aply { option: 2, value: 0 },
        Chunk::Adir { name: "adir_0".into() },
        t(0),
        Chunk::PatchInfo { status: 0, version: 1, install_size: 1 << 20 },
        Chunk::Index { add: true, synonym: false, hash: 0x1122334455667788, block_offset: 3, block_number: 1 },
        Chunk::AddData { main: 0x0a, sub: 0, file: 0, block_offset: 2, data: Bytes::Fill { len: 128 * 5, fill: 41 }, delete_blocks: 600 },
        Chunk::DeleteData { main: 0x0a, sub: 0, file: 0, block_offset: 1, blocks: 2 },
        Chunk::ExpandData { main: 0x04, sub: 0x0102, file: 3, block_offset: 7, blocks: 4 },
        Chunk::HeaderUpdate { index: true, kind: 'V', main: 0x0a, sub: 0, file: 0, data: Bytes::Fill { len: 1024, fill: 42 } },
        Chunk::HeaderUpdate { index: false, kind: 'D', main: 0x0a, sub: 0, file: 0, data: Bytes::Fill { len: 1024, fill: 43 } },
        Chunk::AddFile {
            path: "boot/d0/e0/f0.bin".into(),
            offset: 0,
            expansion: 0,
            blocks: vec![
                FileBlock { data: Bytes::Fill { len: 16000, fill: 45 }, mode: Mode::Miniz(6) },
                FileBlock { data: Bytes::Fill { len: 129, fill: 46 }, mode: Mode::Raw },
                FileBlock { data: Bytes::Fill { len: 300, fill: 47 }, mode: Mode::Fixed },
            ],
        },
        Chunk::AddFile { path: "keep.txt".into(), offset: 4, expansion: 0, blocks: vec![FileBlock { data: Bytes::Fill { len: 10, fill: 48 }, mode: Mode::Stored }] },
        Chunk::DeleteFile { path: "sqpack/ffxiv/other.dat".into(), expansion: 0 },
        Chunk::DeleteFile { path: "sqpack/ffxiv/absent.dat".into(), expansion: 0 },
        Chunk::MakeDirTree { path: "mk/m0/n0/".into(), expansion: 0 },
        Chunk::Deld { name: "adir_1".into() },
        Chunk::Eof,
    ];
    let p2 = vec![
        Chunk::Fhdr2 { kind: "DIFF".into(), entry_files: 3 },
        t(2),
        Chunk::AddData { main: 0x0a, sub: 0, file: 0, block_offset: 0, data: Bytes::Fill { len: 256, fill: 51 }, delete_blocks: 0 },
        t(1),
        Chunk::AddData { main: 0x0a, sub: 0, file: 1, block_offset: 1, data: Bytes::Fill { len: 128, fill: 52 }, delete_blocks: 2 },
        Chunk::Eof,
    ];
    let p3 = vec![
        Chunk::Fhdr3 { kind: "HIST".into(), counters: vec![] },
        t(0),
        Chunk::RemoveAll { expansion: 1 },
        Chunk::AddFile { path: "sqpack/ex1/ex1.ver".into(), offset: 0, expansion: 1, blocks: vec![FileBlock { data: Bytes::Fill { len: 20, fill: 53 }, mode: Mode::Raw }] },
        Chunk::AddData { main: 0x04, sub: 0x0102, file: 3, block_offset: 0, data: Bytes::Fill { len: 128, fill: 54 }, delete_blocks: 1 },
        Chunk::Eof,
    ];
    let (mut pre, mut dirs) = systematic_pre();
    pre.push(FileEnt { path: "sqpack/ex1/040102.win32.dat3".into(), data: Bytes::Fill { len: 300, fill: 8 } });
    pre.push(FileEnt { path: "ffxivboot.ver".into(), data: Bytes::Hex(crate::formats::hex(b"2012.01.01.0000.0000")) });
    dirs.push("sqpack/ex1".into());
    for (i, (via, cfg, benign)) in [
        (Via::GameData, Cfg::Quiet, Benign::quiet()),
        (Via::BootData, Cfg::Benign, noisy.clone()),
        (Via::Direct, Cfg::Benign, Benign { one_byte_reads: true, one_byte_writes: true, ..Benign::quiet() }),
    ]
    .into_iter()
    .enumerate()
    {
        out.push(mk(
            0xD1EC7ED0 + i as u64,
            cfg,
            benign,
            C03Doc { via, pre: pre.clone(), pre_dirs: dirs.clone(), patches: vec![p1.clone(), p2.clone(), p3.clone()], failed_prelude: if via == Via::Direct { Some((0, 17000)) } else { None } },
        ));
    }
    // systematic: every sequence of <= 3 commands over the alphabet, after T
    let alpha = alphabet();
    let (spre, sdirs) = systematic_pre();
    let mut idx = out.len() as u64;
    let n = alpha.len();
    let mut seqs: Vec<Vec<usize>> = vec![];
    for a in 0..n {
        seqs.push(vec![a]);
        for b in 0..n {
            seqs.push(vec![a, b]);
            for c in 0..n {
                seqs.push(vec![a, b, c]);
            }
        }
    }
    for s in seqs {
        let cmds: Vec<Chunk> = s.iter().map(|i| alpha[*i].clone()).collect();
        if !seq_is_constrained(&cmds) {
            continue;
        }
        let mut chunks = vec![Chunk::Fhdr3 { kind: "DIFF".into(), counters: vec![] }, t(0)];
        chunks.extend(cmds);
        chunks.push(Chunk::Eof);
        // alternate quiet and noisy completions deterministically
        let (cfg, benign) = if idx % 2 == 0 { (Cfg::Quiet, Benign::quiet()) } else { (Cfg::Benign, noisy.clone()) };
        out.push(mk(
            0xD1EC7ED0 + idx,
            cfg,
            benign,
            C03Doc { via: Via::Direct, pre: spre.clone(), pre_dirs: sdirs.clone(), patches: vec![chunks], failed_prelude: None },
        ));
        idx += 1;
    }
    out
}

pub fn shape_hash(b: &C03Doc) -> u64 {
    let mut h = fnv1a(FNV_INIT, &[b.via as u8]);
    for p in &b.patches {
        h = fnv1a(h, &[0xfe]);
        for c in p {
            h = fnv1a(h, c.kind_name().as_bytes());
        }
    }
    h
}

pub struct PatchRun {
    pub all_ok: bool,
    pub applied: usize,
}

fn kind_index(c: &Chunk) -> usize {
    KIND_NAMES.iter().position(|k| *k == c.kind_name()).unwrap()
}

pub fn install_pre(h: &Harness, body: &C03Doc) -> u64 {
    let fs = &h.fs;
    fs.h_mkdirs(DATA);
    fs.h_mkdirs(PATCHES);
    let mut bytes = 0u64;
    for d in &body.pre_dirs {
        fs.h_mkdirs(&format!("{}/{}", DATA, d));
    }
    for e in &body.pre {
        let d = e.data.get();
        bytes += d.len() as u64;
        fs.h_write(&format!("{}/{}", DATA, e.path), d);
    }
    bytes
}

/// Compares the SimFs data directory with the model. Returns (class, message) of the first
/// difference.
pub fn diff_tree(h: &Harness, model: &ModelTree, last_cmd: &BTreeMap<String, &'static str>) -> Option<(String, String)> {
    let snap = h.fs.snapshot(DATA);
    let by = |p: &str| last_cmd.get(p).copied().unwrap_or("untouched");
    for (p, want) in &model.files {
        match snap.get(p) {
            Some(Some(got)) => {
                if got != want {
                    let at = got.iter().zip(want.iter()).position(|(a, b)| a != b).unwrap_or(got.len().min(want.len()));
                    let field = if got.len() != want.len() { "length" } else { "content" };
                    return Some((
                        format!("tree-diff|{}|{}", by(p), field),
                        format!(
                            "{}: {} bytes on disk, {} in the reference; first difference at byte {} (last reference command on it: {})",
                            p,
                            got.len(),
                            want.len(),
                            at,
                            by(p)
                        ),
                    ));
                }
            }
            Some(None) => {
                return Some((format!("tree-diff|{}|file-is-dir", by(p)), format!("{} is a directory, the reference has a file", p)))
            }
            None => {
                return Some((
                    format!("tree-diff|{}|missing", by(p)),
                    format!("{} is missing (last reference command on it: {})", p, by(p)),
                ))
            }
        }
    }
    for (p, got) in &snap {
        let under_unconstrained = model
            .unconstrained
            .iter()
            .chain(model.removed_dirs.iter())
            .any(|u| p == u || p.starts_with(&format!("{}/", u)));
        match got {
            Some(_) => {
                if !model.files.contains_key(p) {
                    return Some((
                        format!("tree-diff|{}|extra", by(p)),
                        format!("{} exists but not in the reference (last reference command on it: {})", p, by(p)),
                    ));
                }
            }
            None => {
                if !model.dirs.contains(p) && !under_unconstrained {
                    return Some((format!("tree-diff|dir-extra|{}", by(p)), format!("directory {} exists but not in the reference", p)));
                }
            }
        }
    }
    for d in &model.dirs {
        if model.unconstrained.contains(d) || model.removed_dirs.contains(d) {
            continue;
        }
        match snap.get(d) {
            Some(None) => {}
            _ => {
                if d.is_empty() {
                    continue;
                }
                return Some((format!("tree-diff|dir-missing|{}", by(d)), format!("directory {} is missing", d)));
            }
        }
    }
    None
}

/// Applies the patches of `body` in order. `strict` = C03's oracle (success and exact tree after
/// every link); otherwise only the relaxed C17 rule: Ok implies the reference tree.
pub fn run_patches(h: &mut Harness, body: &C03Doc, strict: bool, intact: &[bool]) -> PatchRun {
    run_patches_opts(h, body, strict, intact, false)
}

/// `prestored`: the patch files are already on the simulated disk (possibly damaged or absent).
pub fn run_patches_opts(h: &mut Harness, body: &C03Doc, strict: bool, intact: &[bool], prestored: bool) -> PatchRun {
    let mut model = initial_model(&body.pre, &body.pre_dirs);
    let mut last_cmd: BTreeMap<String, &'static str> = BTreeMap::new();
    let pre_bytes = h.fs.total_file_bytes(DATA);
    let mut all_ok = true;
    let mut applied = 0;

    // handles
    let game = if body.via == Via::GameData {
        match h.op(100, "GameData::from_existing", pre_bytes, || GameData::from_existing(Platform::Win32, DATA)).done() {
            Some(Some(g)) => Some(g),
            Some(None) => {
                if strict {
                    h.violate("handle|GameData", "GameData::from_existing returned None for an existing directory".into());
                }
                return PatchRun { all_ok: false, applied };
            }
            None => return PatchRun { all_ok: false, applied },
        }
    } else {
        None
    };
    let boot = if body.via == Via::BootData {
        match h.op(101, "BootData::from_existing", pre_bytes, || BootData::from_existing(DATA)).done() {
            Some(Some(b)) => Some(b),
            Some(None) => {
                if strict {
                    h.violate("handle|BootData", "BootData::from_existing returned None for a directory with ffxivboot.ver".into());
                }
                return PatchRun { all_ok: false, applied };
            }
            None => return PatchRun { all_ok: false, applied },
        }
    } else {
        None
    };

    for (pi, chunks) in body.patches.iter().enumerate() {
        let ppath = format!("{}/p{}.patch", PATCHES, pi);
        let plen = h.fs.h_len(&ppath).unwrap_or(0) as u64;
        let enc: Encoded = encode_patch(chunks);
        // the reference effect
        model.touched.clear();
        let mut seen_t = 0;
        for c in chunks {
            let before: Vec<String> = model.files.keys().cloned().collect();
            model.apply(c);
            model.settle();
            let k = c.kind_name();
            for t in model.touched.iter() {
                last_cmd.entry(t.clone()).or_insert(k);
            }
            // attribute the command to the paths it touched
            let touched_now: Vec<String> = match c {
                Chunk::AddData { main, sub, file, .. }
                | Chunk::DeleteData { main, sub, file, .. }
                | Chunk::ExpandData { main, sub, file, .. } => vec![dat_name(model.platform, *main, *sub, *file)],
                Chunk::HeaderUpdate { index, main, sub, file, .. } => vec![if *index {
                    index_name(model.platform, *main, *sub, *file)
                } else {
                    dat_name(model.platform, *main, *sub, *file)
                }],
                Chunk::AddFile { path, .. } | Chunk::DeleteFile { path, .. } | Chunk::MakeDirTree { path, .. } => {
                    vec![path.split('/').filter(|c| !c.is_empty()).collect::<Vec<_>>().join("/")]
                }
                Chunk::RemoveAll { .. } => before.iter().filter(|f| !model.files.contains_key(*f)).cloned().collect(),
                _ => vec![],
            };
            for t in touched_now {
                last_cmd.insert(t, k);
            }
            // probes
            h.probe(kind_index(c));
            match c {
                Chunk::AddFile { blocks, offset, .. } => {
                    if blocks.iter().any(|b| b.mode != Mode::Raw) {
                        h.probe(17);
                    }
                    if blocks.len() > 1 {
                        h.probe(18);
                    }
                    if *offset > 0 {
                        h.probe(19);
                    }
                }
                Chunk::DeleteFile { path, .. } => {
                    if !before.contains(path) {
                        h.probe(20);
                    }
                }
                Chunk::Target { platform, .. } => {
                    if *platform != 0 {
                        h.probe(21);
                    }
                    seen_t += 1;
                    if seen_t == 2 {
                        h.probe(22);
                    }
                }
                Chunk::AddData { delete_blocks, main, sub, file, .. } => {
                    if (*delete_blocks as usize) << 7 > 65536 {
                        h.probe(23);
                    }
                    if before.contains(&dat_name(model.platform, *main, *sub, *file)) {
                        h.probe(28);
                    }
                }
                Chunk::DeleteData { blocks, .. } | Chunk::ExpandData { blocks, .. } => {
                    if (*blocks as usize) << 7 > 65536 {
                        h.probe(23);
                    }
                }
                Chunk::HeaderUpdate { index: true, .. } => h.probe(29),
                _ => {}
            }
        }
        if !prestored {
            h.fs.h_write(&ppath, enc.bytes.clone());
        }
        let _ = plen;
        let plen = h.fs.h_len(&ppath).unwrap_or(0) as u64;
        h.fs.clear_mutations();
        h.fs.watch(&ppath);
        let input = plen + h.fs.total_file_bytes(DATA);
        let entry = match body.via {
            Via::Direct => "ZiPatch::apply",
            Via::GameData => "GameData::apply_patch",
            Via::BootData => "BootData::apply_patch",
        };
        let r = h
            .op(pi as u32, entry, input, || match body.via {
                Via::Direct => ZiPatch::apply(DATA, &ppath),
                Via::GameData => game.as_ref().unwrap().apply_patch(&ppath),
                Via::BootData => boot.as_ref().unwrap().apply_patch(&ppath),
            })
            .done();
        let Some(r) = r else {
            return PatchRun { all_ok: false, applied };
        };
        // which chunk was being read when apply returned
        let pos = h.fs.watch_pos() as usize;
        let ci = enc.boundaries.iter().rposition(|b| *b < pos.max(1)).unwrap_or(0).min(chunks.len().saturating_sub(1));
        let in_flight = chunks.get(ci).map(|c| c.kind_name()).unwrap_or("?");
        h.log(&format!("patch {} -> {:?} tree {:016x}", pi, r.as_ref().map_err(|e| format!("{:?}", e)), h.fs.digest(DATA)));
        let patch_intact = intact.get(pi).copied().unwrap_or(true);
        match r {
            Ok(()) if model.blocked && patch_intact => {
                h.violate(
                    "ok-but-blocked",
                    format!("patch {} reported success although the reference cannot apply it (a regular file sits where it had to create a directory, or a write reaches beyond the largest file the disk holds)", pi),
                );
                return PatchRun { all_ok: false, applied };
            }
            Ok(()) => {
                applied += 1;
                if patch_intact {
                    if let Some((class, msg)) = diff_tree(h, &model, &last_cmd) {
                        if strict {
                            h.violate(&class, format!("after patch {}: {}", pi, msg));
                        } else {
                            h.violate(
                                &format!("ok-but-{}", class),
                                format!("patch {} reported success under a fault, but {}", pi, msg),
                            );
                        }
                        return PatchRun { all_ok: false, applied };
                    }
                    // nothing else changes: every mutating call must concern a path the reference touched
                    for m in h.fs.mutations() {
                        let Some(rel) = m.path.strip_prefix(DATA) else {
                            h.violate(
                                &format!("stray-write|outside|{:?}", m.kind),
                                format!("apply performed {:?} on {} outside the target directory", m.kind, m.path),
                            );
                            return PatchRun { all_ok: false, applied };
                        };
                        let rel = rel.trim_start_matches('/');
                        let ok = match m.kind {
                            Mutation::Mkdir => {
                                model.dirs.contains(rel)
                                    || model.removed_dirs.contains(rel)
                                    || model.unconstrained.iter().any(|u| rel == u || u.starts_with(&format!("{}/", rel)) || rel.starts_with(&format!("{}/", u)))
                                    || model.touched.iter().any(|t| t.starts_with(&format!("{}/", rel)))
                            }
                            _ => model.touched.contains(rel) || model.unconstrained.iter().any(|u| rel.starts_with(&format!("{}/", u))),
                        };
                        if !ok && strict {
                            h.violate(
                                &format!("stray-write|{:?}", m.kind),
                                format!("apply performed {:?} on {}, which the reference semantics never touches", m.kind, rel),
                            );
                            return PatchRun { all_ok: false, applied };
                        }
                    }
                }
            }
            Err(e) => {
                all_ok = false;
                // (a patch the reference cannot apply on this disk either has to fail)
                if strict && !model.blocked {
                    h.violate(
                        &format!("apply-err|{:?}|{}", e, in_flight),
                        format!(
                            "patch {} is well formed but apply returned {:?} while reading chunk {} ({})",
                            pi, e, ci, in_flight
                        ),
                    );
                }
                return PatchRun { all_ok, applied };
            }
        }
    }
    PatchRun { all_ok, applied }
}

pub fn run(doc: &Doc, body: &C03Doc, trace: bool) -> RunResult {
    let mut h = Harness::new("C03", doc.seed, PROBES.len(), trace);
    install_pre(&h, body);
    h.set_policy(&doc.benign, &doc.io_faults);
    if let Some((pi, cut)) = body.failed_prelude {
        if let Some(chunks) = body.patches.get(pi) {
            let mut bytes = encode_patch(chunks).bytes;
            if cut < bytes.len() {
                bytes.truncate(cut);
                h.fs.h_mkdirs("/w/prelude/sqpack");
                let n = bytes.len() as u64;
                h.fs.h_write("/w/prelude.patch", bytes);
                // what this yields is C17's business; it is history for what follows
                let r = h.op(200, "ZiPatch::apply", n, || ZiPatch::apply("/w/prelude", "/w/prelude.patch")).done();
                h.log(&format!("prelude -> {:?}", r.map(|x| x.is_ok())));
                if h.failed() {
                    return h.finish(doc.cfg, shape_hash(body));
                }
                h.probe(32);
            }
        }
    }
    run_patches(&mut h, body, true, &[]);
    finish_probes(&mut h, body);
    if doc.seed >= 0xD1EC7ED0 + 3 && doc.seed < 0xD1EC7ED0 + 4000 {
        h.probe(31);
    }
    h.finish(doc.cfg, shape_hash(body))
}

pub fn finish_probes(h: &mut Harness, body: &C03Doc) {
    let (sw, sr) = h.fs.stats(|s| {
        (
            s.fired[Call::Write.idx()][Done::Short as usize] + s.fired[Call::Write.idx()][Done::Eintr as usize],
            s.fired[Call::Read.idx()][Done::Short as usize] + s.fired[Call::Read.idx()][Done::Eintr as usize],
        )
    });
    if sw > 0 {
        h.probe(24);
    }
    if sr > 0 {
        h.probe(30);
    }
    if body.patches.len() >= 3 {
        h.probe(25);
    }
    match body.via {
        Via::GameData => h.probe(26),
        Via::BootData => h.probe(27),
        _ => {}
    }
    // abstract states: (command kind, completion mix)
    for p in &body.patches {
        for w in p.windows(2) {
            h.state(&[kind_index(&w[0]) as u64, kind_index(&w[1]) as u64, (sw > 0) as u64, (sr > 0) as u64]);
        }
    }
}

pub fn shrink(b: &C03Doc) -> Vec<C03Doc> {
    let mut out = vec![];
    if b.failed_prelude.is_some() {
        let mut n = b.clone();
        n.failed_prelude = None;
        out.push(n);
    }
    // drop a whole patch
    if b.patches.len() > 1 {
        for i in 0..b.patches.len() {
            let mut n = b.clone();
            n.patches.remove(i);
            out.push(n);
        }
    }
    if b.via != Via::Direct {
        let mut n = b.clone();
        n.via = Via::Direct;
        out.push(n);
    }
    // drop a chunk (never the final EOF)
    for (pi, p) in b.patches.iter().enumerate() {
        for ci in 0..p.len() {
            if matches!(p[ci], Chunk::Eof) && ci + 1 == p.len() {
                continue;
            }
            let mut n = b.clone();
            n.patches[pi].remove(ci);
            out.push(n);
        }
    }
    // drop pre-existing files
    for i in 0..b.pre.len() {
        let mut n = b.clone();
        n.pre.remove(i);
        out.push(n);
    }
    // simplify chunk arguments
    for (pi, p) in b.patches.iter().enumerate() {
        for (ci, c) in p.iter().enumerate() {
            let mut alts: Vec<Chunk> = vec![];
            match c {
                Chunk::AddData { main, sub, file, block_offset, data, delete_blocks } => {
                    if *block_offset > 0 {
                        alts.push(Chunk::AddData { main: *main, sub: *sub, file: *file, block_offset: 0, data: data.clone(), delete_blocks: *delete_blocks });
                    }
                    if data.len() > 128 {
                        alts.push(Chunk::AddData { main: *main, sub: *sub, file: *file, block_offset: *block_offset, data: data.shrink_to(128), delete_blocks: *delete_blocks });
                    }
                    if *delete_blocks > 0 {
                        alts.push(Chunk::AddData { main: *main, sub: *sub, file: *file, block_offset: *block_offset, data: data.clone(), delete_blocks: 0 });
                    }
                }
                Chunk::DeleteData { main, sub, file, block_offset, blocks } => {
                    if *block_offset > 0 || *blocks > 1 {
                        alts.push(Chunk::DeleteData { main: *main, sub: *sub, file: *file, block_offset: 0, blocks: 1 });
                    }
                }
                Chunk::ExpandData { main, sub, file, block_offset, blocks } => {
                    if *block_offset > 0 || *blocks > 1 {
                        alts.push(Chunk::ExpandData { main: *main, sub: *sub, file: *file, block_offset: 0, blocks: 1 });
                    }
                }
                Chunk::AddFile { path, offset, expansion, blocks } => {
                    if blocks.len() > 1 {
                        for bi in 0..blocks.len() {
                            let mut nb = blocks.clone();
                            nb.remove(bi);
                            alts.push(Chunk::AddFile { path: path.clone(), offset: *offset, expansion: *expansion, blocks: nb });
                        }
                    }
                    for (bi, blk) in blocks.iter().enumerate() {
                        if blk.mode != Mode::Raw {
                            let mut nb = blocks.clone();
                            nb[bi].mode = Mode::Raw;
                            alts.push(Chunk::AddFile { path: path.clone(), offset: *offset, expansion: *expansion, blocks: nb });
                        }
                        if blk.data.len() > 1 {
                            let mut nb = blocks.clone();
                            nb[bi].data = blk.data.shrink_to(blk.data.len() / 2);
                            alts.push(Chunk::AddFile { path: path.clone(), offset: *offset, expansion: *expansion, blocks: nb });
                        }
                    }
                    if *offset > 0 {
                        alts.push(Chunk::AddFile { path: path.clone(), offset: 0, expansion: *expansion, blocks: blocks.clone() });
                    }
                }
                _ => {}
            }
            for a in alts {
                let mut n = b.clone();
                n.patches[pi][ci] = a;
                out.push(n);
            }
        }
    }
    for i in 0..b.pre.len() {
        if b.pre[i].data.len() > 1 {
            let mut n = b.clone();
            n.pre[i].data = n.pre[i].data.shrink_to(b.pre[i].data.len() / 2);
            out.push(n);
        }
    }
    out
}

/// The constraints under which the reference effect is defined (see DESIGN §4 C03): every
/// patch has a T before its first A/D/E/H, block commands aim at an existing repository
/// directory (D: certainly existing), file paths do not clash with directories, EOF is last.
pub fn well_formed(b: &C03Doc) -> bool {
    why_not(b).is_none()
}

pub fn why_not(b: &C03Doc) -> Option<String> {
    let mut model = initial_model(&b.pre, &b.pre_dirs);
    let path_ok = |model: &ModelTree, p: &str| -> bool {
        if p.is_empty() || model.dirs.contains(p) || model.unconstrained.contains(p) {
            return false;
        }
        let mut cur = String::new();
        for c in p.split('/') {
            if c.is_empty() || c == "." || c == ".." {
                return false;
            }
            if !cur.is_empty() {
                if model.files.contains_key(&cur) || model.unconstrained.contains(&cur) {
                    return false;
                }
                cur.push('/');
            }
            cur.push_str(c);
        }
        true
    };
    for p in &b.patches {
        if p.is_empty() || !matches!(p[p.len() - 1], Chunk::Eof) {
            return Some("no EOF".into());
        }
        let mut seen_t = false;
        for (i, c) in p.iter().enumerate() {
            match c {
                Chunk::Eof => {
                    if i + 1 != p.len() {
                        return Some(format!("chunk {} {:?}", i, c));
                    }
                }
                Chunk::Target { platform, .. } => {
                    if *platform > 2 {
                        return Some(format!("chunk {} {:?}", i, c));
                    }
                    seen_t = true;
                }
                Chunk::AddData { sub, .. } | Chunk::ExpandData { sub, .. } | Chunk::HeaderUpdate { sub, .. } => {
                    let dir = format!("sqpack/{}", expansion_folder(sub >> 8));
                    if !seen_t || !(model.dirs.contains(&dir) || model.removed_dirs.contains(&dir)) {
                        return Some(format!("chunk {} {:?}", i, c));
                    }
                }
                Chunk::DeleteData { sub, blocks, .. } => {
                    let dir = format!("sqpack/{}", expansion_folder(sub >> 8));
                    if !seen_t || !model.dirs.contains(&dir) || *blocks == 0 {
                        return Some(format!("chunk {} {:?}", i, c));
                    }
                }
                Chunk::AddFile { path, .. } => {
                    // leading slashes are allowed: the path still names a place under the target
                    let path = path.trim_start_matches('/');
                    if !path_ok(&model, path) {
                        return Some(format!("chunk {} {:?}", i, c));
                    }
                    if let Chunk::AddFile { blocks, .. } = c {
                        if blocks.iter().any(|b| b.data.len() == 0) {
                            return Some(format!("chunk {} {:?}", i, c));
                        }
                    }
                    // no sub-directories inside a repository directory (F-R's reach)
                    if path.starts_with("sqpack/") && path.matches('/').count() != 2 {
                        return Some(format!("chunk {} {:?}", i, c));
                    }
                }
                Chunk::DeleteFile { path, .. } => {
                    let path = path.trim_start_matches('/');
                    if !model.files.contains_key(path) {
                        if !path_ok(&model, path) {
                            return Some(format!("chunk {} {:?}", i, c));
                        }
                        if let Some(pos) = path.rfind('/') {
                            if !model.dirs.contains(&path[..pos]) {
                                return Some(format!("chunk {} {:?}", i, c));
                            }
                        }
                    }
                }
                Chunk::RemoveAll { expansion } => {
                    let dir = format!("sqpack/{}", expansion_folder(*expansion));
                    let _ = dir;
                }
                Chunk::MakeDirTree { path, .. } => {
                    let p = path.trim_end_matches('/');
                    if !model.dirs.contains(p) && !path_ok(&model, p) {
                        return Some(format!("chunk {} {:?}", i, c));
                    }
                    if p.starts_with("sqpack/") {
                        return Some(format!("chunk {} {:?}", i, c));
                    }
                }
                Chunk::ExpandData { .. } => {}
                _ => {}
            }
            if let Chunk::ExpandData { blocks, .. } = c {
                if *blocks == 0 {
                    return Some(format!("chunk {} {:?}", i, c));
                }
            }
            model.apply(c);
            model.settle();
        }
    }
    None
}
