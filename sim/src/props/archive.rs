//! Synthetic SqPack installs on SimFs and the reference lookup (shared by C01, C02, C18).

use crate::formats::sqpack::{
    category_id, encode_entry, encode_index, file_stem, full_hash, repo_folder, split_hash, BlockSpec, DatBuilder,
    EntryKind, Expect, IndexEntrySpec, PackInfo,
};
use crate::formats::{Field, Mode};
use crate::simfs::SimFs;
use serde::{Deserialize, Serialize};
use std::collections::BTreeMap;

pub const GAME: &str = "/w/game";

#[derive(Clone, Copy, Debug, PartialEq, Eq, Serialize, Deserialize)]
pub enum IndexKind {
    Index1,
    Index2,
    Both,
    /// both files exist but each entry may be in only one of them
    Partial,
}

#[derive(Clone, Debug, PartialEq, Eq, Serialize, Deserialize)]
pub struct EntrySpec {
    /// game path as stored (hashes are taken of its lower-cased form)
    pub path: String,
    pub dat_id: u8,
    pub in_index1: bool,
    pub in_index2: bool,
    /// Some(offset): the entry designates this offset but the dat holds nothing there
    /// (exists / find_offset only)
    pub phantom: Option<u64>,
    /// gap before the entry, in 128-byte units
    pub gap: u32,
    pub kind: EntryKind,
}

#[derive(Clone, Debug, PartialEq, Eq, Serialize, Deserialize)]
pub struct PackSpec {
    pub cat: u8,
    pub chunk: u8,
    pub kind: IndexKind,
    pub entries: Vec<EntrySpec>,
}

#[derive(Clone, Debug, PartialEq, Eq, Serialize, Deserialize)]
pub struct RepoSpec {
    /// 0 = base game (ffxiv), n = ex<n>
    pub exp: u8,
    pub version_file: bool,
    pub packs: Vec<PackSpec>,
}

#[derive(Clone, Debug, PartialEq, Eq, Serialize, Deserialize)]
pub struct Stray {
    /// path relative to the game directory
    pub path: String,
    pub is_dir: bool,
}

#[derive(Clone, Debug, PartialEq, Eq, Serialize, Deserialize)]
pub struct InstallSpec {
    pub platform: u8,
    pub repos: Vec<RepoSpec>,
    pub strays: Vec<Stray>,
    pub secondary_segments: bool,
    /// order of the index entry tables: 0 ascending by key, 1 as added, 2 descending
    #[serde(default)]
    pub table_order: u8,
}

#[derive(Clone, Debug)]
pub struct Stored {
    pub exp: u8,
    pub cat: u8,
    pub chunk: u8,
    pub dat_id: u8,
    pub offset: u64,
    pub phantom: bool,
    pub in_index1: bool,
    pub in_index2: bool,
    pub has_index1_file: bool,
    pub expect_kind: &'static str,
    pub body: Vec<u8>,
    pub sections: Vec<Vec<u8>>,
    pub header: Option<crate::formats::sqpack::ModelSpec>,
}

pub struct FileMap {
    pub path: String,
    pub fields: Vec<Field>,
    pub boundaries: Vec<usize>,
}

pub struct Install {
    /// (exp, cat) -> lower-cased path -> stored entry
    pub table: BTreeMap<(u8, u8), BTreeMap<String, Stored>>,
    pub present_exps: Vec<u8>,
    pub files: Vec<FileMap>,
    pub pack_info: PackInfo,
    pub bytes: u64,
}

pub fn payload_for(exp: u8, cat: u8, chunk: u8, dat: u8, path: &str, uid: u64) -> EntryKind {
    // a short, unique, human-readable standard entry
    let _ = (exp, cat, chunk, dat, path);
    EntryKind::Standard { blocks: vec![BlockSpec { len: 24 + (uid % 40) as usize, mode: Mode::Raw }], fill: uid * 4 + 3 }
}

/// Writes the install onto `fs` and returns the reference table.
pub fn build_install(fs: &SimFs, spec: &InstallSpec) -> Install {
    let mut table: BTreeMap<(u8, u8), BTreeMap<String, Stored>> = BTreeMap::new();
    let mut files = vec![];
    let mut info = PackInfo::default();
    let mut bytes = 0u64;
    fs.h_mkdirs(GAME);
    fs.h_mkdirs(&format!("{}/sqpack", GAME));
    let mut present = vec![];
    for repo in &spec.repos {
        let folder = repo_folder(repo.exp);
        let dir = format!("{}/sqpack/{}", GAME, folder);
        fs.h_mkdirs(&dir);
        present.push(repo.exp);
        if repo.version_file {
            let vp = if repo.exp == 0 { format!("{}/ffxivgame.ver", GAME) } else { format!("{}/{}.ver", dir, folder) };
            fs.h_write(&vp, b"2024.01.01.0000.0000".to_vec());
        }
        for pack in &repo.packs {
            let stem = file_stem(pack.cat, repo.exp, pack.chunk, spec.platform);
            let mut dats: BTreeMap<u8, DatBuilder> = BTreeMap::new();
            let mut idx1: Vec<IndexEntrySpec> = vec![];
            let mut idx2: Vec<IndexEntrySpec> = vec![];
            let has1 = pack.kind != IndexKind::Index2;
            let has2 = pack.kind != IndexKind::Index1;
            for (ei, e) in pack.entries.iter().enumerate() {
                let lower = e.path.to_ascii_lowercase();
                let (offset, exp_out): (u64, Option<Expect>) = match e.phantom {
                    Some(off) => (off, None),
                    None => {
                        let db = dats.entry(e.dat_id).or_insert_with(|| DatBuilder::new(spec.platform));
                        let off = db.next_offset() + e.gap as u64 * 128;
                        let (enc, exp) = encode_entry(&e.kind, &mut info);
                        db.place(off, &enc, &format!("e{}.", ei));
                        (off, Some(exp))
                    }
                };
                let in1 = has1 && (e.in_index1 || pack.kind != IndexKind::Partial);
                let in2 = has2 && (e.in_index2 || pack.kind != IndexKind::Partial);
                let ies = IndexEntrySpec { path: lower.clone(), dat_id: e.dat_id, offset };
                if in1 {
                    idx1.push(ies.clone());
                }
                if in2 {
                    idx2.push(ies);
                }
                if in1 || in2 {
                    let (kind, body, sections) = match exp_out {
                        Some(x) => (x.kind, x.body, x.sections),
                        None => ("phantom", vec![], vec![]),
                    };
                    table.entry((repo.exp, pack.cat)).or_default().insert(
                        lower,
                        Stored {
                            exp: repo.exp,
                            cat: pack.cat,
                            chunk: pack.chunk,
                            dat_id: e.dat_id,
                            offset,
                            phantom: e.phantom.is_some(),
                            in_index1: in1,
                            in_index2: in2,
                            has_index1_file: has1,
                            expect_kind: kind,
                            body,
                            sections,
                            header: match &e.kind {
                                EntryKind::Model(m) => Some(m.clone()),
                                _ => None,
                            },
                        },
                    );
                }
            }
            let dat_count = dats.keys().max().map(|m| *m as u32 + 1).unwrap_or(1);
            if has1 {
                let enc = encode_index(spec.platform, false, &idx1, dat_count, spec.secondary_segments, spec.table_order);
                let p = format!("{}/{}.index", dir, stem);
                bytes += enc.bytes.len() as u64;
                fs.h_write(&p, enc.bytes);
                files.push(FileMap { path: p, fields: enc.fields, boundaries: enc.boundaries });
            }
            if has2 {
                let enc = encode_index(spec.platform, true, &idx2, dat_count, spec.secondary_segments, spec.table_order);
                let p = format!("{}/{}.index2", dir, stem);
                bytes += enc.bytes.len() as u64;
                fs.h_write(&p, enc.bytes);
                files.push(FileMap { path: p, fields: enc.fields, boundaries: enc.boundaries });
            }
            for (id, db) in dats {
                let p = format!("{}/{}.dat{}", dir, stem, id);
                bytes += db.bytes.len() as u64;
                fs.h_write(&p, db.bytes);
                files.push(FileMap { path: p, fields: db.fields, boundaries: db.boundaries });
            }
        }
    }
    for s in &spec.strays {
        let p = format!("{}/{}", GAME, s.path);
        if s.is_dir {
            fs.h_mkdirs(&p);
        } else if !fs.h_exists(&p) {
            fs.h_write(&p, b"stray".to_vec());
        }
    }
    present.sort();
    Install { table, present_exps: present, files, pack_info: info, bytes }
}

/// Reference lookup: category = first component, repository = second component if it names a
/// present repository, else the base game; case is ignored throughout.
pub fn lookup<'a>(inst: &'a Install, path: &str) -> Option<&'a Stored> {
    let lower = path.to_ascii_lowercase();
    let (cat_tok, rest) = lower.split_once('/')?;
    let cat = category_id(cat_tok)?;
    let repo_tok = rest.split('/').next().unwrap_or("");
    let mut exp = 0u8;
    if let Some(n) = repo_tok.strip_prefix("ex") {
        if let Ok(k) = n.parse::<u8>() {
            if k > 0 && inst.present_exps.contains(&k) && repo_folder(k) == repo_tok {
                exp = k;
            }
        }
    }
    inst.table.get(&(exp, cat)).and_then(|t| t.get(&lower))
}

/// All hash keys (index and index2) a lower-cased path occupies, for collision screening.
pub fn hash_keys(lower: &str) -> (u64, u32) {
    let (name, folder) = split_hash(lower);
    (((folder as u64) << 32) | name as u64, full_hash(lower))
}

/// The second way an install comes into being: every index and dat file that `build_install`
/// wrote is taken off the disk again and a patch is composed that re-creates it the way retail
/// patches do — dat files by `A` commands at block offsets behind the two header KiB and two `H`
/// commands for those, index files by an `F` AddFile with blank header KiB and two `H` commands.
/// `A` and `H` name their target by category, expansion, chunk, file number and the platform of
/// the last `T`, i.e. through the patcher's own naming; the reader then has to open those names.
/// Returns the chunks and what every file has to hold after the application.
pub fn take_apart_into_patch(
    fs: &SimFs,
    spec: &InstallSpec,
    piece_seed: u64,
) -> (Vec<crate::formats::zipatch::Chunk>, Vec<(String, Vec<u8>)>) {
    use crate::formats::zipatch::{Chunk, FileBlock};
    use crate::formats::Bytes;
    let hex = |b: &[u8]| -> Bytes {
        let mut s = String::with_capacity(b.len() * 2);
        for x in b {
            s.push_str(&format!("{:02x}", x));
        }
        Bytes::Hex(s)
    };
    let mut r = crate::rng::Rng::derive(piece_seed, 0xA9A7);
    let mut chunks = vec![
        Chunk::Fhdr3 { kind: "DIFF".into(), counters: vec![0; 8] },
        Chunk::Target { platform: spec.platform as u16, region: -1, debug: false, version: 0, deleted: 0, seek: 0 },
    ];
    let mut expect = vec![];
    for repo in &spec.repos {
        let folder = repo_folder(repo.exp);
        let dir = format!("{}/sqpack/{}", GAME, folder);
        for pack in &repo.packs {
            let stem = file_stem(pack.cat, repo.exp, pack.chunk, spec.platform);
            let main = pack.cat as u16;
            let sub = ((repo.exp as u16) << 8) | pack.chunk as u16;
            for (suffix, file_no) in [(".index", 0u32), (".index2", 2u32)] {
                let p = format!("{}/{}{}", dir, stem, suffix);
                let Some(orig) = fs.h_read(&p) else { continue };
                fs.h_remove(&p);
                let mut blank = orig.clone();
                for b in blank.iter_mut().take(2048) {
                    *b = 0;
                }
                // AddFile blocks of 1..16000 bytes
                let mut blocks = vec![];
                let mut at = 0;
                while at < blank.len() {
                    let n = (1 + r.log_size(15_999) as usize).min(blank.len() - at);
                    blocks.push(FileBlock {
                        data: hex(&blank[at..at + n]),
                        mode: if r.chance(1, 2) { Mode::Raw } else { Mode::Miniz(6) },
                    });
                    at += n;
                }
                chunks.push(Chunk::AddFile {
                    path: format!("sqpack/{}/{}{}", folder, stem, suffix),
                    offset: 0,
                    expansion: repo.exp as u16,
                    blocks,
                });
                chunks.push(Chunk::HeaderUpdate { index: true, kind: 'V', main, sub, file: file_no, data: hex(&orig[..1024]) });
                chunks.push(Chunk::HeaderUpdate { index: true, kind: 'I', main, sub, file: file_no, data: hex(&orig[1024..2048]) });
                expect.push((p, orig));
            }
            for id in 0u32..8 {
                let p = format!("{}/{}.dat{}", dir, stem, id);
                let Some(mut orig) = fs.h_read(&p) else { continue };
                fs.h_remove(&p);
                // `A` carries whole 128-byte blocks
                while orig.len() % 128 != 0 || orig.len() < 2048 {
                    orig.push(0);
                }
                // the body first (in pieces, not necessarily in ascending order), the headers last
                let mut pieces = vec![];
                let mut at = 2048;
                while at < orig.len() {
                    let blocks = (1 + r.log_size(63) as usize).min((orig.len() - at) / 128);
                    pieces.push((at, blocks * 128));
                    at += blocks * 128;
                }
                if r.chance(1, 2) {
                    pieces.reverse();
                }
                for (at, n) in pieces {
                    chunks.push(Chunk::AddData {
                        main,
                        sub,
                        file: id,
                        block_offset: (at / 128) as u32,
                        data: hex(&orig[at..at + n]),
                        delete_blocks: 0,
                    });
                }
                chunks.push(Chunk::HeaderUpdate { index: false, kind: 'V', main, sub, file: id, data: hex(&orig[..1024]) });
                chunks.push(Chunk::HeaderUpdate { index: false, kind: 'D', main, sub, file: id, data: hex(&orig[1024..2048]) });
                expect.push((p, orig));
            }
        }
    }
    chunks.push(Chunk::Eof);
    (chunks, expect)
}
