//! C01 — archive lookup finds every stored game path, and only stored paths.

use super::archive::{build_install, take_apart_into_patch, hash_keys, lookup, payload_for, EntrySpec, IndexKind, InstallSpec, PackSpec, RepoSpec, Stray, GAME};
use super::{draw_cfg_benign, Body, Doc};
use crate::formats::sqpack::{category_id, CATEGORIES};
use crate::harness::{Cfg, Harness, RunResult, Tier};
use crate::rng::{fnv1a, Rng, FNV_INIT};
use crate::simfs::{Benign, Call, Done, Hostile, IoFault};
use physis::common::Platform;
use physis::gamedata::GameData;
use serde::{Deserialize, Serialize};
use std::collections::BTreeSet;

#[derive(Clone, Copy, Debug, PartialEq, Eq, Serialize, Deserialize)]
pub enum QKind {
    Exists,
    FindOffset,
    Extract,
}

#[derive(Clone, Debug, PartialEq, Eq, Serialize, Deserialize)]
pub struct Query {
    pub id: u32,
    pub kind: QKind,
    pub path: String,
}

#[derive(Clone, Debug, Serialize, Deserialize)]
pub struct C01Doc {
    pub install: InstallSpec,
    pub queries: Vec<Query>,
    /// the index and dat files are put in place by applying a patch (A, H and F commands) instead
    /// of being written directly: the names the patcher writes are the names the reader opens
    #[serde(default)]
    pub via_patch: bool,
}

pub const PROBES: [&str; 23] = [
    "hit_in_expansion_repository",
    "hit_index2_only_file",
    "hit_only_in_index2_while_index_exists",
    "hit_chunk_gt_0",
    "hit_dat_id_gt_0",
    "repeat_query_cache_hit",
    "absent_hash_in_present_index",
    "case_changed_in_category",
    "case_changed_in_repository_token",
    "case_changed_in_rest",
    "query_after_faulted_query",
    "transient_fault_fired",
    "unknown_category_or_no_slash",
    "phantom_high_offset",
    "platform_not_win32",
    "listing_permuted",
    "short_or_interrupted_read",
    "extract_hit",
    "expansion_token_without_repository",
    "second_half_of_index2_table",
    "more_than_32_index_files_loaded_on_one_handle",
    "hit_in_entry_table_not_in_ascending_key_order",
    "hit_in_install_put_in_place_by_a_patch",
];

pub fn platform_of(p: u8) -> Platform {
    match p {
        0 => Platform::Win32,
        1 => Platform::PS3,
        2 => Platform::PS4,
        3 => Platform::PS5,
        _ => Platform::Xbox,
    }
}

const WORDS: [&str; 14] = [
    "equipment", "e0001", "model", "texture", "root", "common", "font", "bgm", "ffxiv", "r2", "01_roc", "level", "Mt_A",
    "v01",
];
const EXTS: [&str; 6] = [".mdl", ".tex", ".exl", ".exh", ".scd", ""];

fn gen_rest(r: &mut Rng) -> String {
    let depth = 1 + r.below(4) as usize;
    let mut parts: Vec<String> = vec![];
    for i in 0..depth {
        let mut w = format!("{}{}", r.pick(&WORDS), r.below(30));
        if r.chance(1, 3) {
            // every letter of the alphabet has to be hashed and case-folded somewhere
            w.push('_');
            for _ in 0..1 + r.below(5) {
                w.push((b'a' + r.below(26) as u8) as char);
            }
        }
        if i + 1 == depth {
            w.push_str(*r.pick(&EXTS));
        }
        parts.push(w);
    }
    parts.join("/")
}

fn flip_case(r: &mut Rng, s: &str) -> String {
    let mut any = false;
    let mut out: String = s
        .chars()
        .map(|c| {
            if c.is_ascii_alphabetic() && r.chance(1, 2) {
                any = true;
                if c.is_ascii_lowercase() {
                    c.to_ascii_uppercase()
                } else {
                    c.to_ascii_lowercase()
                }
            } else {
                c
            }
        })
        .collect();
    if !any {
        // flip the first letter, if there is one
        if let Some(pos) = out.find(|c: char| c.is_ascii_alphabetic()) {
            let c = out.as_bytes()[pos] as char;
            let f = if c.is_ascii_lowercase() { c.to_ascii_uppercase() } else { c.to_ascii_lowercase() };
            out.replace_range(pos..pos + 1, &f.to_string());
        }
    }
    out
}

pub fn gen_install(r: &mut Rng, tier: Tier, max_entries: usize) -> InstallSpec {
    let platform = if r.chance(1, 2) { 0 } else { r.below(5) as u8 };
    let mut exps: Vec<u8> = vec![0];
    let n_exp = r.below(5) as usize;
    while exps.len() < 1 + n_exp {
        let e = r.range(1, 9) as u8;
        if !exps.contains(&e) {
            exps.push(e);
        }
    }
    let mut uid = 1u64;
    let mut repos = vec![];
    let mut used_keys: BTreeSet<(u8, u8, u64)> = BTreeSet::new();
    let mut used_full: BTreeSet<(u8, u8, u32)> = BTreeSet::new();
    // one install in ten is "wide": many small index files in the base game, more than any
    // plausible cache bound, so that eviction / miss paths run on one handle
    let wide = r.chance(1, 10);
    for exp in &exps {
        let n_packs = if wide && *exp == 0 { r.range(24, 44) as usize } else { 1 + r.below(3) as usize };
        let mut packs: Vec<PackSpec> = vec![];
        for _ in 0..n_packs {
            // one time in three another chunk of a category the repository already has
            let (cat_name, cat) = if !packs.is_empty() && r.chance(1, 3) {
                let c = packs[r.usize_below(packs.len())].cat;
                *CATEGORIES.iter().find(|(_, id)| *id == c).unwrap()
            } else {
                *r.pick(&CATEGORIES)
            };
            let chunk = if r.chance(1, 2) { 0 } else { r.range(1, 9) as u8 };
            if packs.iter().any(|p| p.cat == cat && p.chunk == chunk) {
                continue;
            }
            let kind = match r.below(6) {
                0 => IndexKind::Index1,
                1 => IndexKind::Index2,
                2 | 3 => IndexKind::Both,
                _ => IndexKind::Partial,
            };
            let n_entries = if wide { 1 + r.below(2) as usize } else { 1 + r.log_size(max_entries as u64 - 1) as usize };
            let mut entries = vec![];
            for _ in 0..n_entries {
                let second = match r.below(6) {
                    // the repository token of this repository (base: anything that is no repository name)
                    0..=3 => {
                        if *exp == 0 {
                            None
                        } else {
                            Some(format!("ex{}", exp))
                        }
                    }
                    // a path without an exN component stored in an expansion would be unreachable;
                    // store those in the base game only
                    _ => None,
                };
                if *exp != 0 && second.is_none() {
                    continue;
                }
                let rest = gen_rest(r);
                let path = match second {
                    Some(s) => format!("{}/{}/{}", cat_name, s, rest),
                    None => {
                        // base game: second component must not name an installed expansion
                        if exps.len() > 1 && r.chance(1, 12) {
                            // a token that merely looks like an installed expansion's name
                            // ("ex01", "ex+1", "ex10" next to ex1) names no repository either
                            let n = exps[1 + r.usize_below(exps.len() - 1)];
                            let tok = match r.below(5) {
                                0 => format!("ex0{}", n),
                                1 => format!("ex00{}", n),
                                2 => format!("ex+{}", n),
                                3 => format!("ex{}0", n),
                                _ => format!("ex{}_", n),
                            };
                            format!("{}/{}/{}", cat_name, tok, rest)
                        } else if r.chance(1, 10) {
                            // exN token of an expansion that is NOT installed falls back to base
                            let missing: Vec<u8> = (1..=9).filter(|k| !exps.contains(k)).collect();
                            if missing.is_empty() {
                                format!("{}/{}", cat_name, rest)
                            } else {
                                format!("{}/ex{}/{}", cat_name, r.pick(&missing), rest)
                            }
                        } else {
                            format!("{}/{}", cat_name, rest)
                        }
                    }
                };
                let lower = path.to_ascii_lowercase();
                let (k1, k2) = hash_keys(&lower);
                if !used_keys.insert((*exp, cat, k1)) || !used_full.insert((*exp, cat, k2)) {
                    continue;
                }
                let dat_id = if r.chance(1, 2) { 0 } else { r.below(8) as u8 };
                let (in1, in2) = match r.below(3) {
                    0 => (true, false),
                    1 => (false, true),
                    _ => (true, true),
                };
                let phantom = if r.chance(1, 14) {
                    Some((r.range(1, (1u64 << 28) - 1)) * 128)
                } else {
                    None
                };
                uid += 1;
                entries.push(EntrySpec {
                    path: if r.chance(1, 5) { flip_case(r, &path) } else { path },
                    dat_id,
                    in_index1: in1,
                    in_index2: in2,
                    phantom,
                    gap: if r.chance(1, 4) { r.below(6) as u32 } else { 0 },
                    kind: payload_for(*exp, cat, chunk, dat_id, &lower, r.next_u64() >> 8 | uid),
                });
            }
            packs.push(PackSpec { cat, chunk, kind, entries });
        }
        repos.push(RepoSpec { exp: *exp, version_file: r.chance(2, 3), packs });
    }
    let mut strays = vec![];
    let installed: Vec<u8> = repos.iter().map(|x: &RepoSpec| x.exp).filter(|e| *e != 0).collect();
    for _ in 0..r.below(4) {
        strays.push(match r.below(7) {
            // a left-over copy next to an installed expansion ("ex1.bak" beside "ex1"): physis
            // names a repository after the directory's stem, so the list of repositories names
            // that expansion twice; every file is still opened under sqpack/<name>/
            5 if !installed.is_empty() => Stray { path: format!("sqpack/ex{}.{}", r.pick(&installed), r.pick(&["bak", "old", "0"])), is_dir: true },
            6 => Stray { path: "sqpack/ffxiv.bak".into(), is_dir: true },
            0 => Stray { path: "sqpack/movie".into(), is_dir: true },
            1 => Stray { path: "sqpack/readme.txt".into(), is_dir: false },
            2 => Stray { path: "sqpack/ffxiv/0a0000.win32.index.bak".into(), is_dir: false },
            3 => Stray { path: "sqpack/backup".into(), is_dir: true },
            _ => Stray { path: "sqpack/exd".into(), is_dir: true },
        });
    }
    let _ = tier;
    // one install in three lists its index entries in the order they were added or in descending
    // order (a table that is scanned finds them all the same; one that is bisected does not)
    let secondary_segments = r.chance(1, 2);
    let table_order = if r.chance(1, 3) { 1 + r.below(2) as u8 } else { 0 };
    InstallSpec { platform, repos, strays, secondary_segments, table_order }
}

pub fn generate(seed: u64, tier: Tier) -> Doc {
    let mut r = Rng::derive(seed, 0xC01);
    let (cfg, benign) = draw_cfg_benign(&mut r);
    let install = gen_install(&mut r, tier, 40);
    // collect stored paths
    let mut stored: Vec<(String, bool)> = vec![];
    let mut stored_keys: BTreeSet<u64> = BTreeSet::new();
    let mut stored_full: BTreeSet<u32> = BTreeSet::new();
    for repo in &install.repos {
        for p in &repo.packs {
            for e in &p.entries {
                stored.push((e.path.clone(), e.phantom.is_some()));
                let (k1, k2) = hash_keys(&e.path.to_ascii_lowercase());
                stored_keys.insert(k1);
                stored_full.insert(k2);
            }
        }
    }
    let n_packs: usize = install.repos.iter().map(|r| r.packs.len()).sum();
    let nq = if n_packs > 20 {
        r.range(50, 80)
    } else if tier == Tier::Thorough {
        r.range(10, 60)
    } else {
        r.range(6, 30)
    } as usize;
    let mut queries = vec![];
    for id in 0..nq {
        let kind = match r.below(3) {
            0 => QKind::Exists,
            1 => QKind::FindOffset,
            _ => QKind::Extract,
        };
        let path = match r.below(10) {
            0..=3 if !stored.is_empty() => r.pick(&stored).0.clone(),
            4..=6 if !stored.is_empty() => {
                // change case in exactly one region of a stored path
                let p = r.pick(&stored).0.clone();
                let comps: Vec<&str> = p.splitn(3, '/').collect();
                let which = r.below(3) as usize;
                let mut out: Vec<String> = comps.iter().map(|c| c.to_string()).collect();
                let w = which.min(out.len() - 1);
                out[w] = flip_case(&mut r, &out[w]);
                out.join("/")
            }
            7 => {
                // absent, same category as some pack
                let cat = r.pick(&CATEGORIES).0;
                let p = format!("{}/{}", cat, gen_rest(&mut r));
                let (k1, k2) = hash_keys(&p.to_ascii_lowercase());
                if stored_keys.contains(&k1) || stored_full.contains(&k2) {
                    continue;
                }
                p
            }
            8 => {
                // absent in an expansion
                let cat = r.pick(&CATEGORIES).0;
                let p = format!("{}/ex{}/{}", cat, r.range(1, 9), gen_rest(&mut r));
                let (k1, k2) = hash_keys(&p.to_ascii_lowercase());
                if stored_keys.contains(&k1) || stored_full.contains(&k2) {
                    continue;
                }
                p
            }
            _ => match r.below(5) {
                0 => "what/some_font.dat".to_string(),
                1 => "noslash".to_string(),
                2 => "".to_string(),
                3 => "exd/".to_string(),
                _ => format!("{}x/{}", r.pick(&CATEGORIES).0, gen_rest(&mut r)),
            },
        };
        queries.push(Query { id: id as u32, kind, path });
    }
    // flagged extension: one transient hostile completion while an index file is being loaded
    let mut io_faults = vec![];
    let mut cfg = cfg;
    if r.chance(1, 6) && !queries.is_empty() {
        let q = r.pick(&queries).clone();
        if q.kind == QKind::Extract {
            // the data file cannot be opened (or read) at this moment: the extraction may fail, it
            // may never hand out the bytes of another entry
            let (call, kind, nth) = match r.below(3) {
                0 => (Call::Read, *r.pick(&[Hostile::Eio, Hostile::EarlyEof]), r.below(12) as u32),
                _ => (Call::Open, *r.pick(&[Hostile::Eio, Hostile::Eacces, Hostile::Emfile, Hostile::Enoent]), 0),
            };
            io_faults.push(IoFault { op: q.id as usize, call, nth, kind, sticky: false, path_contains: Some(".dat".into()) });
            cfg = Cfg::Hostile;
        } else {
            let (call, kind, nth) = match r.below(3) {
                0 => (Call::Open, *r.pick(&[Hostile::Eio, Hostile::Eacces, Hostile::Emfile]), r.below(3) as u32),
                _ => (Call::Read, *r.pick(&[Hostile::Eio, Hostile::EarlyEof]), r.log_size(400) as u32),
            };
            io_faults.push(IoFault { op: q.id as usize, call, nth, kind, sticky: false, path_contains: Some(".index".into()) });
            cfg = Cfg::Hostile;
        }
    }
    // one install in five (patches know three platforms) is put in place by applying a patch
    let via_patch = install.platform <= 2 && r.chance(1, 5);
    Doc { prop: "C01".into(), seed, cfg, benign, io_faults, body: Body::C01(C01Doc { install, queries, via_patch }) }
}

pub fn directed() -> Vec<Doc> {
    use crate::formats::sqpack::{BlockSpec, EntryKind};
    use crate::formats::Mode;
    let ent = |p: &str, dat: u8, i1: bool, i2: bool, uid: u64| EntrySpec {
        path: p.to_string(),
        dat_id: dat,
        in_index1: i1,
        in_index2: i2,
        phantom: None,
        gap: 0,
        kind: EntryKind::Standard { blocks: vec![BlockSpec { len: 30 + uid as usize, mode: Mode::Raw }], fill: uid * 4 + 3 },
    };
    // a third of the sheets is listed in both index files, a third in .index only, a third in
    // .index2 only, so that an index file that was only partly loaded cannot hide behind the other
    let mut many: Vec<EntrySpec> = (0..12).map(|i| ent(&format!("exd/sheet{}.exh", i), 0, i % 3 != 2, i % 3 != 1, 40 + i)).collect();
    many.push(EntrySpec { phantom: Some(((1u64 << 28) - 1) * 128), ..ent("exd/phantom.exd", 7, true, true, 60) });
    // a pangram: every letter is hashed, and queried in the other case
    many.push(ent("exd/the_quick_brown_fox/jumps_over_a_lazy_dog.exh", 0, true, true, 61));
    // two paths of different categories whose whole-path hashes are equal (0xAC969BBC): each is
    // found in the index files of its own category only, whatever was looked up before
    many.push(ent("exd/quest/s2d2tyd.exd", 2, true, true, 62));
    let install = InstallSpec {
        platform: 2,
        repos: vec![
            RepoSpec {
                exp: 0,
                version_file: true,
                packs: vec![
                    PackSpec { cat: 0x0a, chunk: 0, kind: IndexKind::Partial, entries: many },
                    PackSpec {
                        cat: 0x04,
                        chunk: 3,
                        kind: IndexKind::Partial,
                        entries: vec![
                            ent("chara/equipment/e0001/model/c0101e0001_top.mdl", 2, false, true, 1),
                            ent("chara/equipment/e0001/texture/v01_c0101e0001_top_d.tex", 0, true, false, 2),
                            ent("chara/ex7/unreachable_expansion_token.bin", 0, true, true, 3),
                        ],
                    },
                    PackSpec { cat: 0x0c, chunk: 0, kind: IndexKind::Index2, entries: vec![ent("music/ffxiv/BGM_System_Title.scd", 1, false, true, 4)] },
                    PackSpec { cat: 0x01, chunk: 0, kind: IndexKind::Both, entries: vec![ent("bgcommon/hou/indoor/filler.mdl", 0, true, true, 63), ent("bgcommon/hou/indoor/mdye_a6.mdl", 1, true, true, 64)] },
                ],
            },
            RepoSpec {
                exp: 1,
                version_file: true,
                packs: vec![PackSpec {
                    cat: 0x02,
                    chunk: 1,
                    kind: IndexKind::Index1,
                    entries: vec![ent("bg/ex1/01_roc_r2/common/texture/a.tex", 0, true, false, 5), ent("bg/ex1/01_roc_r2/level/b.lgb", 3, true, false, 6)],
                }],
            },
            RepoSpec { exp: 3, version_file: false, packs: vec![PackSpec { cat: 0x0c, chunk: 0, kind: IndexKind::Both, entries: vec![ent("music/ex3/BGM_EX3_01.scd", 0, true, true, 7)] }] },
        ],
        strays: vec![Stray { path: "sqpack/movie".into(), is_dir: true }, Stray { path: "sqpack/readme.txt".into(), is_dir: false }],
        secondary_segments: true,
        table_order: 0,
    };
    let q = |id: u32, kind: QKind, p: &str| Query { id, kind, path: p.to_string() };
    let queries = vec![
        q(0, QKind::Exists, "exd/sheet3.exh"),
        q(1, QKind::Extract, "exd/sheet11.exh"),
        q(2, QKind::FindOffset, "EXD/sheet3.exh"),
        q(3, QKind::Extract, "chara/equipment/e0001/model/c0101e0001_top.mdl"),
        q(4, QKind::Extract, "chara/equipment/E0001/texture/v01_C0101E0001_top_d.TEX"),
        q(5, QKind::Extract, "bg/ex1/01_roc_r2/common/texture/a.tex"),
        q(6, QKind::FindOffset, "bg/EX1/01_roc_r2/level/b.lgb"),
        q(7, QKind::Exists, "bg/ex1/01_roc_r2/level/absent.lgb"),
        q(8, QKind::Extract, "music/ffxiv/bgm_system_title.scd"),
        q(9, QKind::Extract, "music/ex3/bgm_ex3_01.scd"),
        q(10, QKind::Exists, "what/some_font.dat"),
        q(11, QKind::Exists, "noslash"),
        q(12, QKind::FindOffset, "exd/phantom.exd"),
        q(13, QKind::Exists, "chara/ex7/unreachable_expansion_token.bin"),
        q(14, QKind::Extract, "exd/sheet3.exh"),
        q(15, QKind::Exists, "exd/absent.exh"),
        q(16, QKind::Exists, "EXD/THE_QUICK_BROWN_FOX/JUMPS_OVER_A_LAZY_DOG.EXH"),
        q(17, QKind::Extract, "exd/The_Quick_Brown_Fox/Jumps_Over_A_Lazy_Dog.exh"),
        q(18, QKind::Extract, "bg/ex1/01_roc_r2/level/b.lgb"),
        q(19, QKind::Extract, "bg/ex1/01_roc_r2/level/b.lgb"),
        q(100, QKind::FindOffset, "exd/quest/s2d2tyd.exd"),
        q(101, QKind::FindOffset, "bgcommon/hou/indoor/mdye_a6.mdl"),
        q(102, QKind::Extract, "bgcommon/hou/indoor/mdye_a6.mdl"),
        q(103, QKind::Extract, "exd/quest/s2d2tyd.exd"),
        q(104, QKind::Exists, "bgcommon/quest/s2d2tyd.exd"),
    ];
    let noisy = Benign { short_read: 100, eintr_read: 50, short_write: 0, eintr_write: 0, one_byte_reads: false, one_byte_writes: false, permute_dirs: true };
    let mut out = vec![];
    for (i, (cfg, benign, faults)) in [
        (Cfg::Quiet, Benign::quiet(), vec![]),
        (Cfg::Benign, noisy.clone(), vec![]),
        (Cfg::Benign, Benign { one_byte_reads: true, permute_dirs: true, ..Benign::quiet() }, vec![]),
        (
            Cfg::Hostile,
            noisy,
            vec![IoFault { op: 0, call: Call::Read, nth: 40, kind: Hostile::Eio, sticky: false, path_contains: Some(".index".into()) }],
        ),
    ]
    .into_iter()
    .enumerate()
    {
        out.push(Doc {
            prop: "C01".into(),
            seed: 0xD1EC7ED0 + i as u64,
            cfg,
            benign,
            io_faults: faults,
            body: Body::C01(C01Doc { install: install.clone(), queries: queries.clone(), via_patch: false }),
        });
    }
    // one read of the first index load fails, at every depth of that load; the query it hits may
    // answer "absent", every later query has to be right (nothing half-loaded may be kept)
    let mut queries = queries;
    for i in 0..12u32 {
        queries.push(q(20 + i, QKind::Exists, &format!("exd/sheet{}.exh", i)));
    }
    let mut idx = out.len() as u64;
    for kind in [Hostile::Eio, Hostile::EarlyEof] {
        // (a load is about 500 reads under whole completions: SqPack header, index header with
        // its four segment descriptors, then three reads per entry)
        for nth in (0..240u32).chain((240..620).step_by(2)) {
            out.push(Doc {
                prop: "C01".into(),
                seed: 0xD1EC7ED0 + idx,
                cfg: Cfg::Hostile,
                benign: Benign::quiet(),
                io_faults: vec![IoFault { op: 0, call: Call::Read, nth, kind, sticky: false, path_contains: Some(".index".into()) }],
                body: Body::C01(C01Doc { install: install.clone(), queries: queries.clone(), via_patch: false }),
            });
            idx += 1;
        }
    }
    // the data file of an entry cannot be opened when it is wanted (dat3 of a pack whose dat0 holds
    // another entry at the same offset); the next extraction finds it again
    for kind in [Hostile::Emfile, Hostile::Eacces, Hostile::Enoent, Hostile::Eio] {
        out.push(Doc {
            prop: "C01".into(),
            seed: 0xD1EC7ED0 + idx,
            cfg: Cfg::Hostile,
            benign: Benign::quiet(),
            io_faults: vec![IoFault { op: 18, call: Call::Open, nth: 0, kind, sticky: false, path_contains: Some(".dat3".into()) }],
            body: Body::C01(C01Doc { install: install.clone(), queries: queries.clone(), via_patch: false }),
        });
        idx += 1;
    }
    // the same install with its entry tables in the order the entries were added, and descending
    for order in [1u8, 2] {
        let mut inst = install.clone();
        inst.table_order = order;
        out.push(Doc {
            prop: "C01".into(),
            seed: 0xD1EC7ED0 + idx,
            cfg: Cfg::Quiet,
            benign: Benign::quiet(),
            io_faults: vec![],
            body: Body::C01(C01Doc { install: inst, queries: queries.clone(), via_patch: false }),
        });
        idx += 1;
    }
    // the same install put in place by a patch, applied quietly, in short and interrupted pieces,
    // and one byte per call
    for benign in [
        Benign::quiet(),
        Benign { short_read: 100, eintr_read: 50, short_write: 100, eintr_write: 50, one_byte_reads: false, one_byte_writes: false, permute_dirs: true },
        Benign { one_byte_reads: true, one_byte_writes: true, ..Benign::quiet() },
    ] {
        out.push(Doc {
            prop: "C01".into(),
            seed: 0xD1EC7ED0 + idx,
            cfg: if benign.is_quiet() { Cfg::Quiet } else { Cfg::Benign },
            benign,
            io_faults: vec![],
            body: Body::C01(C01Doc { install: install.clone(), queries: queries.clone(), via_patch: true }),
        });
        idx += 1;
    }
    let _ = idx;
    out
}

fn shape_hash(b: &C01Doc) -> u64 {
    let mut h = fnv1a(FNV_INIT, &[b.install.platform, b.install.table_order, b.via_patch as u8]);
    for r in &b.install.repos {
        h = fnv1a(h, &[r.exp, r.packs.len() as u8]);
        for p in &r.packs {
            h = fnv1a(h, &[p.cat, p.chunk, p.kind as u8, p.entries.len() as u8]);
        }
    }
    for q in &b.queries {
        h = fnv1a(h, &[q.kind as u8]);
        h = fnv1a(h, q.path.as_bytes());
    }
    h
}

pub fn run(doc: &Doc, body: &C01Doc, trace: bool) -> RunResult {
    let mut h = Harness::new("C01", doc.seed, PROBES.len(), trace);
    let inst = build_install(&h.fs, &body.install);
    let rebuilt = if body.via_patch {
        let (chunks, expect) = take_apart_into_patch(&h.fs, &body.install, doc.seed);
        h.fs.h_mkdirs("/w/p");
        let enc = crate::formats::zipatch::encode_patch(&chunks);
        let plen = enc.bytes.len() as u64;
        h.fs.h_write("/w/p/install.patch", enc.bytes);
        Some((expect, plen))
    } else {
        None
    };
    h.set_policy(&doc.benign, &doc.io_faults);
    if body.install.platform != 0 {
        h.probe(14);
    }
    if let Some((expect, plen)) = rebuilt {
        let r = h.op(999, "ZiPatch::apply", plen + inst.bytes, || physis::patch::ZiPatch::apply(GAME, "/w/p/install.patch")).done();
        match r {
            Some(Ok(())) => {}
            Some(Err(e)) => h.violate(
                &format!("patch-built|apply-err|{:?}", e),
                format!("the patch that puts the index and dat files in place failed with {:?}", e),
            ),
            None => {}
        }
        if h.failed() {
            return h.finish(doc.cfg, shape_hash(body));
        }
        h.fs.pause_trace(true);
        for (p, want) in &expect {
            match h.fs.h_read(p) {
                Some(got) if got == *want => {}
                Some(got) => {
                    let at = got.iter().zip(want.iter()).position(|(a, b)| a != b).unwrap_or(got.len().min(want.len()));
                    h.violate(
                        "patch-built|file-differs",
                        format!("{} differs from what the patch carried for it (first difference at byte {}, {} vs {} bytes)", p, at, got.len(), want.len()),
                    );
                    break;
                }
                None => {
                    h.violate("patch-built|file-missing", format!("{} does not exist after the patch that carries it was applied", p));
                    break;
                }
            }
        }
        h.fs.pause_trace(false);
        if h.failed() {
            return h.finish(doc.cfg, shape_hash(body));
        }
    }
    let game = h
        .op(1000, "GameData::from_existing", inst.bytes, || GameData::from_existing(platform_of(body.install.platform), GAME))
        .done();
    let mut game = match game {
        Some(Some(g)) => g,
        Some(None) => {
            h.violate("handle", "GameData::from_existing returned None for an existing game directory".into());
            return h.finish(doc.cfg, shape_hash(body));
        }
        None => return h.finish(doc.cfg, shape_hash(body)),
    };
    // state anchor: base game first, then expansions ascending, whatever the directory order was
    let want: Vec<String> = std::iter::once("ffxiv".to_string())
        .chain(inst.present_exps.iter().filter(|e| **e != 0).map(|e| format!("ex{}", e)))
        .collect();
    let mut got: Vec<String> = game.repositories.iter().map(|r| r.name.clone()).collect();
    // (a left-over "exN.bak" directory makes physis list exN twice; the order is what is asserted)
    got.dedup();
    if got != want {
        h.violate("repositories-order", format!("repositories are {:?}, expected {:?}", got, want));
    }
    h.log(&format!("repos {:?}", got));

    let faulted_ops: BTreeSet<usize> = doc.io_faults.iter().map(|f| f.op).collect();
    let mut seen_after_fault = false;
    let mut any_fault_before = false;
    let mut asked: BTreeSet<String> = BTreeSet::new();
    for q in &body.queries {
        if h.failed() {
            break;
        }
        let model = lookup(&inst, &q.path);
        let faulted = faulted_ops.contains(&(q.id as usize));
        let hostile_before = h.fs.stats(|s| s.hostile_fired.iter().sum::<u64>());
        // probes (harness side)
        if let Some(m) = model {
            if m.exp != 0 {
                h.probe(0);
            }
            if !m.has_index1_file {
                h.probe(1);
            }
            if m.has_index1_file && !m.in_index1 && m.in_index2 {
                h.probe(2);
            }
            if m.chunk > 0 {
                h.probe(3);
            }
            if m.dat_id > 0 {
                h.probe(4);
            }
            if m.phantom {
                h.probe(13);
            }
            if body.install.table_order != 0 {
                h.probe(21);
            }
            if body.via_patch {
                h.probe(22);
            }
            let lower = q.path.to_ascii_lowercase();
            let stored_exact = body
                .install
                .repos
                .iter()
                .flat_map(|r| r.packs.iter())
                .flat_map(|p| p.entries.iter())
                .find(|e| e.path.to_ascii_lowercase() == lower)
                .map(|e| e.path.clone())
                .unwrap_or_default();
            if stored_exact != q.path {
                let a: Vec<&str> = stored_exact.splitn(3, '/').collect();
                let b: Vec<&str> = q.path.splitn(3, '/').collect();
                if a.len() == b.len() {
                    if a[0] != b[0] {
                        h.probe(7);
                    }
                    if a.len() > 2 && a[1] != b[1] && a[1].to_ascii_lowercase().starts_with("ex") {
                        h.probe(8);
                    }
                    if a[a.len() - 1] != b[b.len() - 1] {
                        h.probe(9);
                    }
                }
            }
            if m.exp == 0 && lower.split('/').nth(1).map(|t| t.starts_with("ex") && t.len() == 3).unwrap_or(false) {
                h.probe(18);
            }
        } else {
            let lower = q.path.to_ascii_lowercase();
            match lower.split_once('/') {
                Some((c, _)) if category_id(c).is_some() => h.probe(6),
                _ => h.probe(12),
            }
        }
        if !asked.insert(q.path.to_ascii_lowercase()) {
            h.probe(5);
        }
        if any_fault_before && !faulted {
            seen_after_fault = true;
        }

        let entry = match q.kind {
            QKind::Exists => "GameData::exists",
            QKind::FindOffset => "GameData::find_offset",
            QKind::Extract => "GameData::extract",
        };
        let input = inst.bytes;
        enum Ans {
            B(bool),
            O(Option<u64>),
            X(Option<Vec<u8>>),
        }
        let ans = h
            .op(q.id, entry, input, || match q.kind {
                QKind::Exists => Ans::B(game.exists(&q.path)),
                QKind::FindOffset => Ans::O(game.find_offset(&q.path)),
                QKind::Extract => Ans::X(game.extract(&q.path)),
            })
            .done();
        let Some(ans) = ans else { break };
        let fired_now = h.fs.stats(|s| s.hostile_fired.iter().sum::<u64>()) > hostile_before;
        if fired_now {
            h.probe(11);
            any_fault_before = true;
        }
        let class = |m: Option<&super::archive::Stored>| -> String {
            match m {
                None => "absent-path".to_string(),
                Some(m) => format!(
                    "{}|{}|{}",
                    if m.exp == 0 { "base" } else { "expansion" },
                    match (m.in_index1, m.in_index2) {
                        (true, true) => "index+index2",
                        (true, false) => "index-only",
                        _ => "index2-only",
                    },
                    if q.path == q.path.to_ascii_lowercase() { "lower-case" } else { "mixed-case" }
                ),
            }
        };
        match ans {
            Ans::B(b) => {
                h.log(&format!("exists {} -> {}", q.path, b));
                let want = model.is_some();
                if b != want && !(fired_now && !b) {
                    h.violate(
                        &format!("exists|{}", class(model)),
                        format!("exists({:?}) = {}, but the path is {}", q.path, b, if want { "stored" } else { "not stored" }),
                    );
                }
            }
            Ans::O(o) => {
                h.log(&format!("find_offset {} -> {:?}", q.path, o));
                let want = model.map(|m| m.offset);
                if o != want && !(fired_now && o.is_none()) {
                    h.violate(
                        &format!("find_offset|{}", class(model)),
                        format!("find_offset({:?}) = {:?}, the index entry designates {:?}", q.path, o, want),
                    );
                }
            }
            Ans::X(x) => {
                h.log(&format!("extract {} -> {:?}", q.path, x.as_ref().map(|v| fnv1a(FNV_INIT, v))));
                match model {
                    Some(m) if !m.phantom => {
                        h.probe(17);
                        match x {
                            Some(bytes) if bytes == m.body => {}
                            Some(bytes) => h.violate(
                                &format!("extract-wrong|{}", class(model)),
                                format!(
                                    "extract({:?}) returned {} bytes that are not the entry stored at ex{} cat {:02x} chunk {} dat{} offset {}",
                                    q.path,
                                    bytes.len(),
                                    m.exp,
                                    m.cat,
                                    m.chunk,
                                    m.dat_id,
                                    m.offset
                                ),
                            ),
                            None => {
                                if !fired_now {
                                    h.violate(
                                        &format!("extract-none|{}", class(model)),
                                        format!(
                                            "extract({:?}) returned None, the entry is stored at ex{} cat {:02x} chunk {} dat{} offset {}",
                                            q.path, m.exp, m.cat, m.chunk, m.dat_id, m.offset
                                        ),
                                    );
                                }
                            }
                        }
                    }
                    Some(_) => {} // phantom: the dat holds nothing there; no demand
                    None => {
                        if let Some(bytes) = x {
                            h.violate(
                                "extract-absent",
                                format!("extract({:?}) returned {} bytes for a path that is not stored", q.path, bytes.len()),
                            );
                        }
                    }
                }
            }
        }
        // abstract state
        h.state(&[
            q.kind as u64,
            model.map(|m| 1 + (m.exp != 0) as u64 + 2 * (m.in_index1 as u64) + 4 * (m.in_index2 as u64) + 8 * ((m.chunk > 0) as u64)).unwrap_or(0),
            fired_now as u64,
            asked.len().min(4) as u64,
        ]);
    }
    if seen_after_fault {
        h.probe(10);
    }
    {
        // distinct index files whose pack was hit by some query
        let mut touched: BTreeSet<(u8, u8, u8, bool)> = BTreeSet::new();
        for q in &body.queries {
            if let Some(m) = lookup(&inst, &q.path) {
                if m.in_index1 {
                    touched.insert((m.exp, m.cat, m.chunk, false));
                }
                if m.in_index2 || !m.has_index1_file {
                    touched.insert((m.exp, m.cat, m.chunk, true));
                }
            }
        }
        if touched.len() > 32 {
            h.probe(20);
        }
    }
    // second half of an index2 table (the table-size arithmetic)
    for repo in &body.install.repos {
        for p in &repo.packs {
            if p.kind != IndexKind::Index1 && p.entries.len() >= 2 {
                h.probe(19);
            }
        }
    }
    let (perm, nonfull) = h.fs.stats(|s| {
        (
            s.fired[Call::ReadDir.idx()][Done::Permuted as usize],
            s.fired[Call::Read.idx()][Done::Short as usize] + s.fired[Call::Read.idx()][Done::Eintr as usize],
        )
    });
    if perm > 0 {
        h.probe(15);
    }
    if nonfull > 0 {
        h.probe(16);
    }
    drop(game);
    h.finish(doc.cfg, shape_hash(body))
}

pub fn shrink(b: &C01Doc) -> Vec<C01Doc> {
    let mut out = vec![];
    for i in 0..b.queries.len() {
        let mut n = b.clone();
        n.queries.remove(i);
        out.push(n);
    }
    for ri in 0..b.install.repos.len() {
        if b.install.repos[ri].exp != 0 {
            let mut n = b.clone();
            n.install.repos.remove(ri);
            out.push(n);
        }
        for pi in 0..b.install.repos[ri].packs.len() {
            let mut n = b.clone();
            n.install.repos[ri].packs.remove(pi);
            out.push(n);
            let ne = b.install.repos[ri].packs[pi].entries.len();
            if ne > 4 {
                // halves first
                let mut n = b.clone();
                n.install.repos[ri].packs[pi].entries.truncate(ne / 2);
                out.push(n);
                let mut n = b.clone();
                n.install.repos[ri].packs[pi].entries.drain(0..ne / 2);
                out.push(n);
            }
            for ei in 0..ne {
                let mut n = b.clone();
                n.install.repos[ri].packs[pi].entries.remove(ei);
                out.push(n);
            }
            if b.install.repos[ri].packs[pi].chunk != 0 {
                let mut n = b.clone();
                n.install.repos[ri].packs[pi].chunk = 0;
                out.push(n);
            }
            for ei in 0..ne {
                let e = &b.install.repos[ri].packs[pi].entries[ei];
                if e.dat_id != 0 || e.gap != 0 {
                    let mut n = b.clone();
                    n.install.repos[ri].packs[pi].entries[ei].dat_id = 0;
                    n.install.repos[ri].packs[pi].entries[ei].gap = 0;
                    out.push(n);
                }
            }
        }
    }
    for i in 0..b.install.strays.len() {
        let mut n = b.clone();
        n.install.strays.remove(i);
        out.push(n);
    }
    if b.install.platform != 0 {
        let mut n = b.clone();
        n.install.platform = 0;
        out.push(n);
    }
    if b.install.table_order != 0 {
        let mut n = b.clone();
        n.install.table_order = 0;
        out.push(n);
    }
    if b.via_patch {
        let mut n = b.clone();
        n.via_patch = false;
        out.push(n);
    }
    if b.install.secondary_segments {
        let mut n = b.clone();
        n.install.secondary_segments = false;
        out.push(n);
    }
    out
}
