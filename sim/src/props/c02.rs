//! C02 — extraction returns exactly the bytes that were packed.

use super::archive::{build_install, lookup, EntrySpec, IndexKind, InstallSpec, PackSpec, RepoSpec, Stored, GAME};
use super::c01::platform_of;
use super::{draw_cfg_benign, Body, Doc};
use crate::formats::sqpack::{encode_entry, BlockSpec, DatBuilder, EntryKind, ModelSpec, PackInfo};
use crate::formats::Mode;
use crate::harness::{Cfg, Harness, RunResult, Tier};
use crate::rng::{fnv1a, Rng, FNV_INIT};
use crate::simfs::{Benign, Call, Done, Hostile, IoFault};
use physis::gamedata::GameData;
use physis::sqpack::SqPackData;
use serde::{Deserialize, Serialize};

#[derive(Clone, Debug, PartialEq, Eq, Serialize, Deserialize)]
pub struct E2 {
    pub gap: u32,
    pub kind: EntryKind,
    /// the first deflated block of this entry is stored with an invalid stream (an entry that
    /// cannot be extracted sits next to healthy ones; only the healthy ones are checked)
    #[serde(default)]
    pub poison: bool,
}

#[derive(Clone, Copy, Debug, PartialEq, Eq, Serialize, Deserialize)]
pub enum Via2 {
    Direct,
    GameData,
}

#[derive(Clone, Debug, Serialize, Deserialize)]
pub struct C02Doc {
    pub via: Via2,
    pub platform: u8,
    pub dat_id: u8,
    pub entries: Vec<E2>,
    /// order in which entries are read (indices, repeats allowed)
    pub reads: Vec<usize>,
    pub leak_check: bool,
    /// GameData mode: the numbers of the two chunks the entries are spread over (default 0 and
    /// 1); chunk numbers need not be consecutive and chunk 0 need not exist
    #[serde(default)]
    pub chunks: Option<(u8, u8)>,
}

pub const PROBES: [&str; 20] = [
    "multi_block_entry",
    "deflate_stored_stream",
    "deflate_fixed_stream",
    "deflate_dynamic_stream",
    "raw_block",
    "model_with_3_lods",
    "model_section_with_0_blocks",
    "texture_with_more_than_1_mip",
    "entry_in_dat_gt_0",
    "short_or_interrupted_read_inside_small_field",
    "block_of_exactly_16000_bytes",
    "empty_content",
    "via_gamedata",
    "leak_check_performed",
    "entry_after_gap",
    "standard_entry",
    "repeat_read_same_handle",
    "healthy_read_after_failed_read_of_poisoned_entry",
    "hostile_read_completion_fired",
    "read_under_fault_returned_none",
];

const SIZES: [usize; 20] = [
    0, 1, 2, 111, 112, 113, 127, 128, 129, 255, 256, 15999, 16000, 16001, 31999, 32000, 32001, 48000, 65535, 65536,
];

fn gen_mode(r: &mut Rng) -> Mode {
    match r.below(8) {
        0 | 1 => Mode::Raw,
        2 => Mode::Stored,
        3 => Mode::Fixed,
        4 => Mode::Miniz(0),
        5 => Mode::Miniz(1),
        6 => Mode::Miniz(6),
        _ => Mode::Miniz(1 + r.below(10) as u8),
    }
}

/// Splits `total` bytes into blocks of 1..=16000 bytes.
fn gen_blocks(r: &mut Rng, total: usize) -> Vec<BlockSpec> {
    let mut out = vec![];
    let mut left = total;
    let style = r.below(4);
    while left > 0 {
        let max = left.min(16000);
        let len = match style {
            0 => max,                              // maximal blocks, as the game packs
            1 => r.range(1, max as u64) as usize,  // arbitrary
            2 => (1 + r.log_size(max as u64 - 1) as usize).min(max), // many small
            _ => {
                if r.chance(1, 3) {
                    max
                } else {
                    r.range(1, max as u64) as usize
                }
            }
        };
        // cap the number of blocks of one section
        let len = if out.len() >= 120 { max } else { len };
        out.push(BlockSpec { len, mode: gen_mode(r) });
        left -= len;
    }
    out
}

fn gen_total(r: &mut Rng, tier: Tier, big_ok: &mut bool) -> usize {
    match r.below(12) {
        0..=2 => *r.pick(&SIZES),
        3 if *big_ok => {
            *big_ok = false;
            let max = if tier == Tier::Thorough { 1 << 20 } else { 200 << 10 };
            r.range(20_000, max) as usize
        }
        _ => r.log_size(6000) as usize,
    }
}

fn gen_section(r: &mut Rng, tier: Tier, big_ok: &mut bool, allow_empty: bool) -> Vec<BlockSpec> {
    if allow_empty && r.chance(1, 3) {
        return vec![];
    }
    let mut t = gen_total(r, tier, big_ok).min(300_000);
    if t == 0 {
        t = 1 + r.below(300) as usize;
    }
    gen_blocks(r, t)
}

pub fn gen_entry(r: &mut Rng, tier: Tier, big_ok: &mut bool) -> EntryKind {
    match r.below(10) {
        0..=4 => {
            let t = gen_total(r, tier, big_ok);
            EntryKind::Standard { blocks: gen_blocks(r, t), fill: r.next_u64() }
        }
        5..=6 => {
            // (a texture header has room for 13 surfaces; the entry's own count is a free 32-bit field)
            let n_mips = if r.chance(1, 3) { 1 } else { 1 + r.below(17) as usize };
            let mut mips = vec![];
            for _ in 0..n_mips {
                let t = (gen_total(r, tier, big_ok) / 2).max(1).min(120_000);
                mips.push(gen_blocks(r, t));
            }
            let layout = if r.chance(1, 4) { 1 + r.below(3) as u8 } else { 0 };
            EntryKind::Texture { header_len: if r.chance(2, 3) { 80 } else { r.range(1, 200) as usize }, mips, fill: r.next_u64(), layout }
        }
        _ => {
            let lods = 1 + r.below(3) as u8;
            let mut vertex: [Vec<BlockSpec>; 3] = Default::default();
            let mut index: [Vec<BlockSpec>; 3] = Default::default();
            for l in 0..3 {
                // sections beyond the LOD count are usually, not always, empty
                let beyond = l as u8 >= lods;
                if !beyond || r.chance(1, 4) {
                    vertex[l] = gen_section(r, tier, big_ok, true);
                    index[l] = gen_section(r, tier, big_ok, true);
                }
            }
            EntryKind::Model(ModelSpec {
                version: if r.chance(1, 2) { 0x0100_0005 } else { 0x0100_0006 },
                vertex_declarations: r.range(1, 12) as u16,
                materials: r.range(0, 9) as u16,
                lods,
                streaming: r.chance(1, 2),
                edge_geometry: r.chance(1, 4),
                stack: gen_section(r, tier, big_ok, true),
                runtime: gen_section(r, tier, big_ok, true),
                vertex,
                index,
                fill: r.next_u64(),
                layout: if r.chance(1, 3) { 1 + r.below(4) as u8 } else { 0 },
            })
        }
    }
}

pub fn generate(seed: u64, tier: Tier) -> Doc {
    let mut r = Rng::derive(seed, 0xC02);
    let (cfg, benign) = draw_cfg_benign(&mut r);
    let n = 1 + r.below(6) as usize;
    let mut big_ok = r.chance(1, 10);
    let mut entries = vec![];
    for _ in 0..n {
        entries.push(E2 { gap: if r.chance(1, 3) { r.below(20) as u32 } else { 0 }, kind: gen_entry(&mut r, tier, &mut big_ok), poison: r.chance(1, 12) });
    }
    let mut reads: Vec<usize> = (0..n).collect();
    r.shuffle(&mut reads);
    for _ in 0..r.below(3) {
        reads.push(r.usize_below(n));
    }
    let via = if r.chance(1, 3) { Via2::GameData } else { Via2::Direct };
    // flagged extension: a hostile completion while an entry is being reassembled; the result
    // may then be None, never wrong bytes
    let mut io_faults = vec![];
    let mut cfg = cfg;
    if r.chance(1, 6) {
        let op = r.usize_below(reads.len());
        let (call, kind) = match r.below(4) {
            0 => (Call::Seek, Hostile::Eio),
            1 => (Call::Read, Hostile::EarlyEof),
            _ => (Call::Read, Hostile::Eio),
        };
        io_faults.push(IoFault { op, call, nth: r.log_size(1500) as u32, kind, sticky: r.chance(1, 6), path_contains: None });
        cfg = Cfg::Hostile;
    }
    Doc {
        prop: "C02".into(),
        seed,
        cfg,
        benign,
        io_faults,
        body: Body::C02(C02Doc {
            via,
            platform: if r.chance(2, 3) { 0 } else { r.below(5) as u8 },
            dat_id: if r.chance(1, 2) { 0 } else { r.below(8) as u8 },
            entries,
            reads,
            leak_check: r.chance(1, 4),
            chunks: if r.chance(1, 2) {
                None
            } else {
                let a = r.below(10) as u8;
                let b = (a + 1 + r.below(9) as u8) % 10;
                Some((a, b))
            },
        }),
    }
}

pub fn directed() -> Vec<Doc> {
    let b = |len: usize, mode: Mode| BlockSpec { len, mode };
    let entries = vec![
        E2 {
            gap: 0,
            poison: false,
            kind: EntryKind::Standard {
                blocks: vec![b(16000, Mode::Miniz(6)), b(1, Mode::Raw), b(777, Mode::Fixed), b(15999, Mode::Stored), b(16000, Mode::Raw), b(300, Mode::Miniz(1))],
                fill: 5,
            },
        },
        E2 { gap: 3, poison: false, kind: EntryKind::Standard { blocks: vec![], fill: 1 } },
        E2 {
            gap: 0,
            poison: false,
            kind: EntryKind::Texture {
                header_len: 80,
                mips: vec![vec![b(16000, Mode::Miniz(9)), b(384, Mode::Raw)], vec![b(4096, Mode::Miniz(6))], vec![b(1024, Mode::Fixed)], vec![b(256, Mode::Stored)]],
                fill: 9,
                layout: 3,
            },
        },
        E2 {
            gap: 1,
            poison: false,
            kind: EntryKind::Model(ModelSpec {
                version: 0x0100_0005,
                vertex_declarations: 2,
                materials: 3,
                lods: 3,
                streaming: true,
                edge_geometry: false,
                stack: vec![b(136, Mode::Miniz(6))],
                runtime: vec![b(2000, Mode::Miniz(1)), b(500, Mode::Raw)],
                vertex: [vec![b(16000, Mode::Miniz(6)), b(4000, Mode::Miniz(6))], vec![], vec![b(640, Mode::Fixed)]],
                index: [vec![b(3000, Mode::Stored)], vec![b(12, Mode::Raw)], vec![]],
                fill: 13,
                layout: 4,
            }),
        },
        E2 { gap: 0, poison: true, kind: EntryKind::Standard { blocks: vec![b(500, Mode::Miniz(6)), b(100, Mode::Raw)], fill: 21 } },
    ];
    let noisy = Benign { short_read: 120, eintr_read: 50, short_write: 0, eintr_write: 0, one_byte_reads: false, one_byte_writes: false, permute_dirs: true };
    let mut out = vec![];
    for (i, (via, cfg, benign, dat)) in [
        (Via2::Direct, Cfg::Quiet, Benign::quiet(), 0u8),
        (Via2::GameData, Cfg::Benign, noisy.clone(), 5u8),
        (Via2::Direct, Cfg::Benign, Benign { one_byte_reads: true, ..Benign::quiet() }, 0),
        (Via2::Direct, Cfg::Benign, noisy, 0),
    ]
    .into_iter()
    .enumerate()
    {
        out.push(Doc {
            prop: "C02".into(),
            seed: 0xD1EC7ED0 + i as u64,
            cfg,
            benign,
            io_faults: vec![],
            body: Body::C02(C02Doc { via, platform: 0, dat_id: dat, entries: entries.clone(), reads: vec![0, 4, 1, 2, 4, 3, 0], leak_check: true, chunks: if dat == 5 { Some((2, 7)) } else { None } }),
        });
    }
    out
}

fn shape_hash(b: &C02Doc) -> u64 {
    let mut h = fnv1a(FNV_INIT, &[b.via as u8, b.dat_id]);
    let blocks = |h: &mut u64, v: &Vec<BlockSpec>| {
        for x in v {
            *h = fnv1a(*h, &(x.len as u32).to_le_bytes());
            *h = fnv1a(*h, format!("{:?}", x.mode).as_bytes());
        }
        *h = fnv1a(*h, &[0xfd]);
    };
    for e in &b.entries {
        match &e.kind {
            EntryKind::Standard { blocks: bl, .. } => {
                h = fnv1a(h, &[1]);
                blocks(&mut h, bl);
            }
            EntryKind::Texture { mips, header_len, .. } => {
                h = fnv1a(h, &[2, *header_len as u8]);
                for m in mips {
                    blocks(&mut h, m);
                }
            }
            EntryKind::Model(m) => {
                h = fnv1a(h, &[3, m.lods]);
                blocks(&mut h, &m.stack);
                blocks(&mut h, &m.runtime);
                for l in 0..3 {
                    blocks(&mut h, &m.vertex[l]);
                    blocks(&mut h, &m.index[l]);
                }
            }
        }
    }
    h
}

fn rd_u32(b: &[u8], off: usize) -> u32 {
    u32::from_le_bytes([b[off], b[off + 1], b[off + 2], b[off + 3]])
}
fn rd_u16(b: &[u8], off: usize) -> u16 {
    u16::from_le_bytes([b[off], b[off + 1]])
}

/// Compares an extraction result with what was packed. Returns (class, message) on mismatch.
pub fn check_extraction(kind: &str, body: &[u8], sections: &[Vec<u8>], header: Option<&ModelSpec>, got: &Option<Vec<u8>>) -> Option<(String, String)> {
    let Some(out) = got else {
        return Some((format!("{}|none", kind), format!("extraction of a well-formed {} entry returned None", kind)));
    };
    match kind {
        "standard" | "texture" => {
            if out != body {
                let at = out.iter().zip(body.iter()).position(|(a, b)| a != b).unwrap_or(out.len().min(body.len()));
                let what = if out.len() != body.len() { "length" } else { "content" };
                return Some((
                    format!("{}|{}", kind, what),
                    format!("{} entry: got {} bytes, packed {} bytes, first difference at byte {}", kind, out.len(), body.len(), at),
                ));
            }
            None
        }
        _ => {
            let m = header.expect("HARNESS: model entry without spec");
            if out.len() < 0x44 {
                return Some(("model|short".into(), format!("model output has only {} bytes", out.len())));
            }
            if out.len() != 0x44 + body.len() {
                return Some((
                    "model|length".into(),
                    format!("model output has {} bytes, packed sections total {} + 0x44 header", out.len(), body.len()),
                ));
            }
            if out[0x44..] != body[..] {
                let at = out[0x44..].iter().zip(body.iter()).position(|(a, b)| a != b).unwrap_or(0);
                return Some(("model|body".into(), format!("model body differs from the packed sections at byte {} of the body", at)));
            }
            let hdr_checks: [(&str, u64, u64); 8] = [
                ("version", rd_u32(out, 0) as u64, m.version as u64),
                ("stack_size", rd_u32(out, 4) as u64, sections[0].len() as u64),
                ("runtime_size", rd_u32(out, 8) as u64, sections[1].len() as u64),
                ("vertex_declaration_count", rd_u16(out, 12) as u64, m.vertex_declarations as u64),
                ("material_count", rd_u16(out, 14) as u64, m.materials as u64),
                ("lod_count", out[64] as u64, m.lods as u64),
                ("index_buffer_streaming_enabled", out[65] as u64, m.streaming as u64),
                ("has_edge_geometry", out[66] as u64, m.edge_geometry as u64),
            ];
            for (name, got, want) in hdr_checks {
                if got != want {
                    return Some((format!("model|header|{}", name), format!("synthesized model header: {} = {}, expected {}", name, got, want)));
                }
            }
            for l in 0..3 {
                for (which, off_at, size_at, sec) in [("vertex", 16 + 4 * l, 40 + 4 * l, &sections[2 + l]), ("index", 28 + 4 * l, 52 + 4 * l, &sections[5 + l])] {
                    let off = rd_u32(out, off_at) as usize;
                    let size = rd_u32(out, size_at) as usize;
                    if size != sec.len() {
                        return Some((
                            format!("model|header|{}_size", which),
                            format!("LOD {} {} buffer size = {}, packed section has {} bytes", l, which, size, sec.len()),
                        ));
                    }
                    if !sec.is_empty() {
                        if off + size > out.len() || out[off..off + size] != sec[..] {
                            return Some((
                                format!("model|header|{}_offset", which),
                                format!("LOD {} {} offset {} (size {}) does not address the packed section", l, which, off, size),
                            ));
                        }
                    }
                }
            }
            None
        }
    }
}

pub fn run(doc: &Doc, body: &C02Doc, trace: bool) -> RunResult {
    let mut h = Harness::new("C02", doc.seed, PROBES.len(), trace);
    let mut info = PackInfo::default();
    // harness-side expectations
    struct Exp {
        offset: u64,
        kind: &'static str,
        body: Vec<u8>,
        sections: Vec<Vec<u8>>,
        header: Option<ModelSpec>,
        path: String,
        poisoned: bool,
    }
    let mut exps: Vec<Exp> = vec![];
    let dat_path = "/w/d/test.dat".to_string();
    let mut total_bytes = 0u64;
    let inst = match body.via {
        Via2::Direct => {
            let mut db = DatBuilder::new(body.platform);
            for (i, e) in body.entries.iter().enumerate() {
                let off = db.next_offset() + e.gap as u64 * 128;
                let (mut enc, x) = encode_entry(&e.kind, &mut info);
                let mut poisoned = false;
                if e.poison {
                    if let Some(f) = enc.fields.iter().find(|f| f.name.ends_with("blk.payload")).cloned() {
                        // block type 3 is reserved: inflate reports a data error
                        for k in 0..f.width.min(8) {
                            enc.bytes[f.off + k] = 0xFF;
                        }
                        poisoned = true;
                    }
                }
                db.place(off, &enc, &format!("e{}.", i));
                exps.push(Exp {
                    poisoned,
                    offset: off,
                    kind: x.kind,
                    body: x.body,
                    sections: x.sections,
                    header: match &e.kind {
                        EntryKind::Model(m) => Some(m.clone()),
                        _ => None,
                    },
                    path: String::new(),
                });
            }
            total_bytes = db.bytes.len() as u64;
            h.fs.h_write(&dat_path, db.bytes);
            None
        }
        Via2::GameData => {
            // the entries are spread over two chunks of one category with the same dat number, so
            // that consecutive extractions on one handle alternate between two dat files
            let mk = |i: usize, e: &E2| EntrySpec {
                path: format!("chara/c02/file{}.bin", i),
                dat_id: body.dat_id,
                in_index1: true,
                in_index2: true,
                phantom: None,
                gap: e.gap,
                kind: e.kind.clone(),
            };
            let (chunk_a, chunk_b) = body.chunks.unwrap_or((0, 1));
            let mut packs = vec![PackSpec {
                cat: 0x04,
                chunk: chunk_a,
                kind: IndexKind::Both,
                entries: body.entries.iter().enumerate().filter(|(i, _)| i % 2 == 0).map(|(i, e)| mk(i, e)).collect(),
            }];
            if body.entries.len() > 1 {
                packs.push(PackSpec {
                    cat: 0x04,
                    chunk: chunk_b,
                    kind: IndexKind::Both,
                    entries: body.entries.iter().enumerate().filter(|(i, _)| i % 2 == 1).map(|(i, e)| mk(i, e)).collect(),
                });
            }
            let spec = InstallSpec {
                platform: body.platform,
                repos: vec![RepoSpec { exp: 0, version_file: true, packs }],
                strays: vec![],
                secondary_segments: false,
                table_order: 0,
            };
            let inst = build_install(&h.fs, &spec);
            info = inst.pack_info.clone();
            total_bytes = inst.bytes;
            for i in 0..body.entries.len() {
                let p = format!("chara/c02/file{}.bin", i);
                let s: &Stored = lookup(&inst, &p).expect("HARNESS: stored entry not in the table");
                exps.push(Exp { poisoned: false, offset: s.offset, kind: s.expect_kind, body: s.body.clone(), sections: s.sections.clone(), header: s.header.clone(), path: p });
            }
            Some(inst)
        }
    };
    // probes from the packed shapes
    for e in &body.entries {
        let nblocks = match &e.kind {
            EntryKind::Standard { blocks, .. } => {
                h.probe(15);
                if blocks.is_empty() {
                    h.probe(11);
                }
                blocks.len()
            }
            EntryKind::Texture { mips, .. } => {
                if mips.len() > 1 {
                    h.probe(7);
                }
                mips.iter().map(|m| m.len()).sum()
            }
            EntryKind::Model(m) => {
                if m.lods == 3 {
                    h.probe(5);
                }
                let secs: Vec<&Vec<BlockSpec>> = vec![&m.stack, &m.runtime, &m.vertex[0], &m.index[0]];
                if secs.iter().any(|s| s.is_empty()) {
                    h.probe(6);
                }
                m.stack.len() + m.runtime.len()
            }
        };
        if nblocks > 1 {
            h.probe(0);
        }
        if e.gap > 0 {
            h.probe(14);
        }
    }
    for (i, n) in info.btypes.iter().enumerate() {
        if *n > 0 {
            h.probe(1 + i);
        }
    }
    if info.raw_blocks > 0 {
        h.probe(4);
    }
    if info.block_16000 {
        h.probe(10);
    }
    if body.dat_id > 0 && body.via == Via2::GameData {
        h.probe(8);
    }
    if body.via == Via2::GameData {
        h.probe(12);
    }

    h.set_policy(&doc.benign, &doc.io_faults);
    let mut dat = None;
    let mut game = None;
    match body.via {
        Via2::Direct => {
            match h.op(1000, "SqPackData::from_existing", total_bytes, || SqPackData::from_existing(&dat_path)).done() {
                Some(Some(d)) => dat = Some(d),
                Some(None) => h.violate("handle", "SqPackData::from_existing returned None for an existing dat file".into()),
                None => {}
            }
        }
        Via2::GameData => {
            match h.op(1000, "GameData::from_existing", total_bytes, || GameData::from_existing(platform_of(body.platform), GAME)).done() {
                Some(Some(g)) => game = Some(g),
                Some(None) => h.violate("handle", "GameData::from_existing returned None".into()),
                None => {}
            }
        }
    }
    let mut seen: Vec<usize> = vec![];
    let mut had_failed = false;
    for (k, &ei) in body.reads.iter().enumerate() {
        if h.failed() || ei >= exps.len() {
            break;
        }
        if seen.contains(&ei) {
            h.probe(16);
        }
        seen.push(ei);
        let x = &exps[ei];
        let hostile_before = h.fs.stats(|s| s.hostile_fired.iter().sum::<u64>());
        let entry = if body.via == Via2::Direct { "SqPackData::read_from_offset" } else { "GameData::extract" };
        let got = h
            .op(k as u32, entry, total_bytes, || match body.via {
                Via2::Direct => dat.as_mut().unwrap().read_from_offset(x.offset),
                Via2::GameData => game.as_mut().unwrap().extract(&x.path),
            })
            .done();
        let Some(got) = got else { break };
        h.log(&format!("read {} -> {:?}", ei, got.as_ref().map(|v| (v.len(), fnv1a(FNV_INIT, v)))));
        let fired_now = h.fs.stats(|s| s.hostile_fired.iter().sum::<u64>()) > hostile_before;
        if fired_now {
            h.probe(18);
        }
        if x.poisoned {
            // what a damaged entry yields is C18's business; it only must not disturb the others
            if got.is_none() {
                had_failed = true;
            }
            continue;
        }
        if had_failed {
            h.probe(17);
        }
        if fired_now && got.is_none() {
            // an I/O error may fail the extraction; it may never produce wrong bytes
            h.probe(19);
            had_failed = true;
            continue;
        }
        if let Some((class, msg)) = check_extraction(x.kind, &x.body, &x.sections, x.header.as_ref(), &got) {
            let class = if fired_now { format!("under-fault|{}", class) } else { class };
            h.violate(&format!("extract|{}", class), format!("entry {} at offset {}: {}", ei, x.offset, msg));
            break;
        }
        drop(got);
        if body.leak_check && k == 0 && !fired_now {
            h.probe(13);
            let off = x.offset;
            let path = x.path.clone();
            match body.via {
                Via2::Direct => {
                    let d = dat.as_mut().unwrap();
                    h.leak_check(k as u32, entry, "successful-extraction", || {
                        let _ = d.read_from_offset(off);
                    });
                }
                Via2::GameData => {
                    let g = game.as_mut().unwrap();
                    h.leak_check(k as u32, entry, "successful-extraction", || {
                        let _ = g.extract(&path);
                    });
                }
            }
        }
        let kind_code = match x.kind {
            "standard" => 1,
            "texture" => 2,
            _ => 3,
        };
        let (nf, sp) = h.fs.stats(|s| (s.fired[Call::Read.idx()][Done::Short as usize] + s.fired[Call::Read.idx()][Done::Eintr as usize], s.split_small));
        h.state(&[kind_code, (x.body.len() as u64).min(1 << 20).next_power_of_two().trailing_zeros() as u64, (nf > 0) as u64, (sp > 0) as u64, body.via as u64]);
    }
    if h.fs.stats(|s| s.split_small) > 0 {
        h.probe(9);
    }
    drop(dat);
    drop(game);
    drop(inst);
    h.finish(doc.cfg, shape_hash(body))
}

pub fn shrink(b: &C02Doc) -> Vec<C02Doc> {
    let mut out = vec![];
    // drop reads
    if b.reads.len() > 1 {
        for i in 0..b.reads.len() {
            let mut n = b.clone();
            n.reads.remove(i);
            out.push(n);
        }
    }
    // drop entries that are not read (re-index)
    for ei in 0..b.entries.len() {
        if !b.reads.contains(&ei) {
            let mut n = b.clone();
            n.entries.remove(ei);
            for r in n.reads.iter_mut() {
                if *r > ei {
                    *r -= 1;
                }
            }
            out.push(n);
        }
    }
    if b.via != Via2::Direct {
        let mut n = b.clone();
        n.via = Via2::Direct;
        out.push(n);
    }
    if b.leak_check {
        let mut n = b.clone();
        n.leak_check = false;
        out.push(n);
    }
    if b.chunks.is_some() {
        let mut n = b.clone();
        n.chunks = None;
        out.push(n);
    }
    let shrink_blocks = |v: &Vec<BlockSpec>| -> Vec<Vec<BlockSpec>> {
        let mut alts = vec![];
        if v.len() > 1 {
            alts.push(v[..v.len() / 2].to_vec());
            alts.push(v[v.len() / 2..].to_vec());
            for i in 0..v.len().min(12) {
                let mut n = v.clone();
                n.remove(i);
                alts.push(n);
            }
        }
        for i in 0..v.len().min(12) {
            if v[i].mode != Mode::Raw {
                let mut n = v.clone();
                n[i].mode = Mode::Raw;
                alts.push(n);
            }
            if v[i].len > 1 {
                let mut n = v.clone();
                n[i].len = v[i].len / 2;
                alts.push(n);
                let mut n = v.clone();
                n[i].len = v[i].len - 1;
                alts.push(n);
            }
        }
        alts
    };
    for (ei, e) in b.entries.iter().enumerate() {
        if e.poison {
            let mut n = b.clone();
            n.entries[ei].poison = false;
            out.push(n);
        }
        if e.gap > 0 {
            let mut n = b.clone();
            n.entries[ei].gap = 0;
            out.push(n);
        }
        match &e.kind {
            EntryKind::Standard { blocks, fill } => {
                for a in shrink_blocks(blocks) {
                    let mut n = b.clone();
                    n.entries[ei].kind = EntryKind::Standard { blocks: a, fill: *fill };
                    out.push(n);
                }
            }
            EntryKind::Texture { header_len, mips, fill, layout } => {
                if *layout != 0 {
                    let mut n = b.clone();
                    n.entries[ei].kind = EntryKind::Texture { header_len: *header_len, mips: mips.clone(), fill: *fill, layout: 0 };
                    out.push(n);
                }
                if mips.len() > 1 {
                    for mi in 0..mips.len() {
                        let mut nm = mips.clone();
                        nm.remove(mi);
                        let mut n = b.clone();
                        n.entries[ei].kind = EntryKind::Texture { header_len: *header_len, mips: nm, fill: *fill, layout: *layout };
                        out.push(n);
                    }
                }
                for (mi, m) in mips.iter().enumerate() {
                    for a in shrink_blocks(m) {
                        if a.is_empty() {
                            continue;
                        }
                        let mut nm = mips.clone();
                        nm[mi] = a;
                        let mut n = b.clone();
                        n.entries[ei].kind = EntryKind::Texture { header_len: *header_len, mips: nm, fill: *fill, layout: *layout };
                        out.push(n);
                    }
                }
            }
            EntryKind::Model(m) => {
                let mut push = |f: &dyn Fn(&mut ModelSpec)| {
                    let mut nm = m.clone();
                    f(&mut nm);
                    if nm != *m {
                        let mut n = b.clone();
                        n.entries[ei].kind = EntryKind::Model(nm);
                        out.push(n);
                    }
                };
                push(&|x| x.stack.clear());
                push(&|x| x.runtime.clear());
                for l in 0..3 {
                    push(&|x| x.vertex[l].clear());
                    push(&|x| x.index[l].clear());
                }
                for a in shrink_blocks(&m.stack) {
                    push(&|x| x.stack = a.clone());
                }
                for a in shrink_blocks(&m.runtime) {
                    push(&|x| x.runtime = a.clone());
                }
                for l in 0..3 {
                    for a in shrink_blocks(&m.vertex[l]) {
                        push(&|x| x.vertex[l] = a.clone());
                    }
                    for a in shrink_blocks(&m.index[l]) {
                        push(&|x| x.index[l] = a.clone());
                    }
                }
            }
        }
    }
    out
}
