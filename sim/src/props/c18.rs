//! C18 — damaged game data is rejected without crashing; failed decompression does not leak.

use super::archive::{build_install, InstallSpec, GAME};
use super::c01::{gen_install, platform_of, QKind};
use super::c02::gen_entry;
use super::damage::{self, Damage};
use super::{Body, Doc};
use crate::formats::sqpack::EntryKind;
use crate::formats::Field;
use crate::harness::{Cfg, Harness, RunResult, Tier};
use crate::rng::{fnv1a, Rng, FNV_INIT};
use crate::simfs::{Benign, Call, Hostile, IoFault, SimFs};
use physis::gamedata::GameData;
use physis::sqpack::{SqPackData, SqPackIndex};
use serde::{Deserialize, Serialize};

#[derive(Clone, Debug, PartialEq, Eq, Serialize, Deserialize)]
pub enum Step {
    Query { id: u32, kind: QKind, path: String },
    /// at-rest storage fault on a stored file (absolute SimFs path)
    Damage { file: String, damage: Damage },
    Remove { file: String },
    ToDir { file: String },
    /// stray directory under sqpack/, name given as hex bytes (may be non-UTF-8)
    StrayDir { name_hex: String },
    StrayFile { path: String, len: usize },
    /// the version file of the base game (0) or of expansion N rewritten with these bytes
    VersionText { exp: u8, hex: String },
    Reopen { id: u32 },
    IndexOpen { id: u32, file: String },
    DatRead { id: u32, file: String, offset: u64 },
}

#[derive(Clone, Debug, Serialize, Deserialize)]
pub enum C18Doc {
    Archive { install: InstallSpec, steps: Vec<Step> },
    Asset { format: String, seed: u64, damage: Vec<Damage> },
}

pub const PROBES: [&str; 26] = [
    "archive_scenario",
    "index_truncated",
    "dat_truncated",
    "index_header_field_corrupted",
    "index_entry_field_corrupted",
    "file_info_field_corrupted",
    "model_info_field_corrupted",
    "block_header_field_corrupted",
    "texture_mip_field_corrupted",
    "deflate_payload_corrupted",
    "sector_or_bit_damage",
    "dat_removed_after_index_cached",
    "dat_replaced_by_directory",
    "stray_dir_short_name",
    "stray_dir_non_utf8_name",
    "stray_dir_ex_non_digit",
    "reopen_after_damage",
    "hostile_completion_fired",
    "failed_extraction_leak_checked",
    "extract_returned_none",
    "extract_returned_some_after_damage",
    "direct_index_open",
    "direct_dat_read",
    "query_on_damaged_pack",
    "index_removed",
    "asset_scenario",
];

fn file_kind(path: &str) -> &'static str {
    if path.contains(".index") {
        "index"
    } else if path.contains(".dat") {
        "dat"
    } else {
        "other"
    }
}

/// Builds the install on a scratch file system to learn file names, field maps and stored paths.
struct Layout {
    files: Vec<(String, Vec<u8>, Vec<Field>, Vec<usize>)>,
    paths: Vec<(String, u8, u8, u8)>,
    /// (dat file path, offset)
    entries: Vec<(String, u64)>,
}

fn layout_of(spec: &InstallSpec) -> Layout {
    let fs = SimFs::new();
    let inst = build_install(&fs, spec);
    let mut files = vec![];
    for f in &inst.files {
        let bytes = fs.h_read(&f.path).unwrap_or_default();
        files.push((f.path.clone(), bytes, f.fields.clone(), f.boundaries.clone()));
    }
    let mut paths = vec![];
    let mut entries = vec![];
    for ((exp, cat), t) in &inst.table {
        for (p, s) in t {
            paths.push((p.clone(), *exp, *cat, s.chunk));
            if !s.phantom {
                let stem = crate::formats::sqpack::file_stem(*cat, *exp, s.chunk, spec.platform);
                entries.push((format!("{}/sqpack/{}/{}.dat{}", GAME, crate::formats::sqpack::repo_folder(*exp), stem, s.dat_id), s.offset));
            }
        }
    }
    Layout { files, paths, entries }
}

fn draw_archive_damage(r: &mut Rng, bytes: &[u8], fields: &[Field], bounds: &[usize]) -> Damage {
    match r.below(10) {
        0..=4 => damage::draw_field(r, bytes, fields).unwrap_or(Damage::BitFlip { bit: r.usize_below(bytes.len().max(1) * 8) }),
        5 | 6 => {
            let len = bytes.len().max(1);
            let at = if !bounds.is_empty() && r.chance(3, 4) {
                let b = *r.pick(bounds) as i64 + r.range(0, 2) as i64 - 1;
                b.clamp(0, len as i64 - 1) as usize
            } else {
                r.usize_below(len)
            };
            Damage::Truncate { at }
        }
        _ => damage::draw(r, bytes, bounds, fields),
    }
}

pub fn generate(seed: u64, tier: Tier) -> Doc {
    let mut r = Rng::derive(seed, 0xC18);
    let benign = if r.chance(1, 2) { Benign::quiet() } else { Benign::draw(&mut r) };
    if r.chance(2, 5) && !super::assets::FORMATS.is_empty() {
        return generate_asset(seed, &mut r, benign);
    }
    let mut install = gen_install(&mut r, tier, 10);
    // richer entry kinds: models, textures, compressed blocks
    let mut big_ok = false;
    for repo in install.repos.iter_mut() {
        for p in repo.packs.iter_mut() {
            for e in p.entries.iter_mut() {
                if e.phantom.is_none() && r.chance(1, 2) {
                    e.kind = gen_entry(&mut r, Tier::Quick, &mut big_ok);
                    // keep objects small: this check is about damage, not volume
                    shrink_kind(&mut e.kind);
                }
            }
        }
    }
    let lay = layout_of(&install);
    let mut steps = vec![];
    let mut io_faults = vec![];
    let mut id = 0u32;
    let n_steps = r.range(3, 12);
    let mut damaged_files: Vec<String> = vec![];
    let q = |r: &mut Rng, lay: &Layout, damaged: &[String], id: &mut u32| -> Step {
        let kind = match r.below(5) {
            0 => QKind::Exists,
            1 => QKind::FindOffset,
            _ => QKind::Extract,
        };
        // prefer paths whose pack was damaged
        let path = if lay.paths.is_empty() {
            "exd/root.exl".to_string()
        } else {
            let cands: Vec<&(String, u8, u8, u8)> = lay
                .paths
                .iter()
                .filter(|(_, exp, cat, chunk)| {
                    let stem = format!("{:02x}{:02}{:02}.", cat, exp, chunk);
                    damaged.iter().any(|d| d.contains(&stem))
                })
                .collect();
            if !cands.is_empty() && r.chance(3, 4) {
                r.pick(&cands).0.clone()
            } else {
                r.pick(&lay.paths).0.clone()
            }
        };
        *id += 1;
        Step::Query { id: *id, kind, path }
    };
    for _ in 0..n_steps {
        match r.below(21) {
            20 => {
                let exp = if install.repos.is_empty() { 0 } else { r.pick(&install.repos).exp };
                let bytes: Vec<u8> = match r.below(4) {
                    0 => vec![],
                    1 => crate::rng::fill_bytes(r.range(1, 60) as usize, r.next_u64() & !3),
                    _ => {
                        // valid UTF-8 of any length with multi-byte characters anywhere
                        let mut t = String::new();
                        for _ in 0..r.below(48) {
                            t.push(*r.pick(&['2', '0', '.', '1', 'a', ' ', '\n', '\r', '\u{e9}', '\u{6f22}', '\u{1f600}']));
                        }
                        t.into_bytes()
                    }
                };
                steps.push(Step::VersionText { exp, hex: crate::formats::hex(&bytes) });
                id += 1;
                steps.push(Step::Reopen { id });
            }
            0..=8 => steps.push(q(&mut r, &lay, &damaged_files, &mut id)),
            9..=13 if !lay.files.is_empty() => {
                let (path, bytes, fields, bounds) = r.pick(&lay.files);
                // damage is computed against the pristine bytes; earlier damage to the same file
                // may make it a no-op, which is harmless
                let d = draw_archive_damage(&mut r, bytes, fields, bounds);
                damaged_files.push(path.clone());
                steps.push(Step::Damage { file: path.clone(), damage: d });
                // and look at it right away
                steps.push(q(&mut r, &lay, &damaged_files, &mut id));
            }
            14 if !lay.files.is_empty() => {
                let (path, ..) = r.pick(&lay.files);
                damaged_files.push(path.clone());
                if r.chance(1, 2) {
                    steps.push(Step::Remove { file: path.clone() });
                } else {
                    steps.push(Step::ToDir { file: path.clone() });
                }
                steps.push(q(&mut r, &lay, &damaged_files, &mut id));
            }
            15 => {
                let name: Vec<u8> = match r.below(8) {
                    0 => b"e".to_vec(),
                    1 => b"ex".to_vec(),
                    2 => b"exa".to_vec(),
                    3 => b"ex_".to_vec(),
                    4 => vec![b'e', b'x', 0xFF],
                    5 => vec![0xC3, 0x28],
                    6 => b"ab".to_vec(),
                    _ => b"ex1x".to_vec(),
                };
                steps.push(Step::StrayDir { name_hex: crate::formats::hex(&name) });
                id += 1;
                steps.push(Step::Reopen { id });
            }
            16 => {
                id += 1;
                steps.push(Step::Reopen { id });
            }
            17 if !lay.files.is_empty() => {
                let idx: Vec<&(String, Vec<u8>, Vec<Field>, Vec<usize>)> = lay.files.iter().filter(|f| file_kind(&f.0) == "index").collect();
                if !idx.is_empty() {
                    id += 1;
                    steps.push(Step::IndexOpen { id, file: r.pick(&idx).0.clone() });
                }
            }
            18 | 19 if !lay.entries.is_empty() => {
                let (file, off) = r.pick(&lay.entries).clone();
                id += 1;
                let off = if r.chance(1, 5) { off + 128 * r.below(4) } else { off };
                steps.push(Step::DatRead { id, file, offset: off });
            }
            _ => steps.push(Step::StrayFile { path: format!("sqpack/stray{}.bin", r.below(3)), len: r.below(100) as usize }),
        }
    }
    // hostile completions while an operation is in flight
    if r.chance(1, 3) {
        let ops: Vec<u32> = steps
            .iter()
            .filter_map(|s| match s {
                Step::Query { id, .. } | Step::Reopen { id } | Step::IndexOpen { id, .. } | Step::DatRead { id, .. } => Some(*id),
                _ => None,
            })
            .collect();
        if !ops.is_empty() {
            for _ in 0..r.range(1, 2) {
                let op = *r.pick(&ops) as usize;
                let (call, kind, nth) = match r.below(6) {
                    0 => (Call::Open, *r.pick(&[Hostile::Eio, Hostile::Eacces, Hostile::Emfile, Hostile::Enoent]), r.below(4) as u32),
                    1 => (Call::Seek, Hostile::Eio, r.log_size(200) as u32),
                    2 => (Call::Metadata, *r.pick(&[Hostile::Eacces, Hostile::Enoent, Hostile::Eio]), r.below(3) as u32),
                    3 => (Call::ReadDir, Hostile::Eacces, 0),
                    _ => (Call::Read, *r.pick(&[Hostile::Eio, Hostile::EarlyEof]), r.log_size(800) as u32),
                };
                io_faults.push(IoFault { op, call, nth, kind, sticky: r.chance(1, 5), path_contains: None });
            }
        }
    }
    Doc { prop: "C18".into(), seed, cfg: Cfg::Hostile, benign, io_faults, body: Body::C18(C18Doc::Archive { install, steps }) }
}

fn shrink_kind(k: &mut EntryKind) {
    let cap = |v: &mut Vec<crate::formats::sqpack::BlockSpec>| {
        v.truncate(3);
        for b in v.iter_mut() {
            b.len = b.len.min(700).max(1);
        }
    };
    match k {
        EntryKind::Standard { blocks, .. } => cap(blocks),
        EntryKind::Texture { mips, .. } => {
            mips.truncate(3);
            for m in mips.iter_mut() {
                cap(m);
            }
        }
        EntryKind::Model(m) => {
            cap(&mut m.stack);
            cap(&mut m.runtime);
            for l in 0..3 {
                cap(&mut m.vertex[l]);
                cap(&mut m.index[l]);
            }
        }
    }
}

fn generate_asset(seed: u64, r: &mut Rng, benign: Benign) -> Doc {
    let format = *r.pick(super::assets::FORMATS);
    let aseed = 1 + r.below(5);
    let bytes = super::assets::build(format, aseed);
    let fields = super::assets::fields(format, aseed);
    let bounds: Vec<usize> = fields.iter().map(|f| f.off).chain(fields.iter().map(|f| f.off + f.width)).collect();
    let n = match r.below(8) {
        0 => 0,
        1..=5 => 1,
        6 => 2,
        _ => 3,
    };
    let mut dmg = vec![];
    let mut cur = bytes.clone();
    for _ in 0..n {
        let d = draw_archive_damage(r, &cur, &fields, &bounds);
        d.apply(&mut cur);
        dmg.push(d);
    }
    Doc {
        prop: "C18".into(),
        seed,
        cfg: Cfg::Hostile,
        benign,
        io_faults: vec![],
        body: Body::C18(C18Doc::Asset { format: format.to_string(), seed: aseed, damage: dmg }),
    }
}

/// Directed scenarios: one per mandatory probe (archive side), and for assets every truncation
/// point (small objects) and the whole field table.
pub fn directed() -> Vec<Doc> {
    use super::archive::{EntrySpec, IndexKind, PackSpec, RepoSpec};
    use crate::formats::sqpack::{BlockSpec, ModelSpec};
    use crate::formats::Mode;
    let b = |len: usize, mode: Mode| BlockSpec { len, mode };
    let ent = |p: &str, dat: u8, kind: EntryKind| EntrySpec { path: p.to_string(), dat_id: dat, in_index1: true, in_index2: true, phantom: None, gap: 0, kind };
    let install = InstallSpec {
        platform: 0,
        repos: vec![
            RepoSpec {
                exp: 0,
                version_file: true,
                packs: vec![PackSpec {
                    cat: 0x04,
                    chunk: 0,
                    kind: IndexKind::Both,
                    entries: vec![
                        ent("chara/a/std.bin", 0, EntryKind::Standard { blocks: vec![b(600, Mode::Miniz(6)), b(300, Mode::Raw), b(200, Mode::Fixed)], fill: 5 }),
                        ent("chara/a/tex.tex", 0, EntryKind::Texture { header_len: 80, mips: vec![vec![b(512, Mode::Miniz(6)), b(128, Mode::Raw)], vec![b(64, Mode::Stored)]], fill: 9, layout: 0 }),
                        ent(
                            "chara/a/mdl.mdl",
                            1,
                            EntryKind::Model(ModelSpec {
                                version: 0x0100_0005,
                                vertex_declarations: 1,
                                materials: 1,
                                lods: 2,
                                streaming: false,
                                edge_geometry: false,
                                stack: vec![b(136, Mode::Miniz(6))],
                                runtime: vec![b(400, Mode::Miniz(1))],
                                vertex: [vec![b(640, Mode::Miniz(6))], vec![b(64, Mode::Raw)], vec![]],
                                index: [vec![b(120, Mode::Stored)], vec![b(12, Mode::Raw)], vec![]],
                                fill: 13,
                                layout: 0,
                            }),
                        ),
                    ],
                }],
            },
            RepoSpec { exp: 1, version_file: true, packs: vec![PackSpec { cat: 0x02, chunk: 0, kind: IndexKind::Index1, entries: vec![ent("bg/ex1/x.bin", 0, EntryKind::Standard { blocks: vec![b(50, Mode::Raw)], fill: 3 })] }] },
        ],
        strays: vec![],
        secondary_segments: true,
        table_order: 0,
    };
    let lay = layout_of(&install);
    let mut out = vec![];
    let mut idx = 0u64;
    let mut push = |steps: Vec<Step>, faults: Vec<IoFault>, out: &mut Vec<Doc>| {
        out.push(Doc {
            prop: "C18".into(),
            seed: 0xD1EC7ED0 + idx,
            cfg: Cfg::Hostile,
            benign: Benign::quiet(),
            io_faults: faults,
            body: Body::C18(C18Doc::Archive { install: install.clone(), steps }),
        });
        idx += 1;
    };
    let all_queries = |start: u32| -> Vec<Step> {
        let mut v = vec![];
        let mut id = start;
        for p in ["chara/a/std.bin", "chara/a/tex.tex", "chara/a/mdl.mdl", "bg/ex1/x.bin"] {
            for kind in [QKind::Exists, QKind::Extract] {
                id += 1;
                v.push(Step::Query { id, kind, path: p.to_string() });
            }
        }
        v
    };
    // undamaged
    push(all_queries(0), vec![], &mut out);
    // every named field of every file x the value table; every structure boundary +-1 truncation
    for (path, bytes, fields, bounds) in &lay.files {
        for f in fields {
            let orig = damage::read_field(bytes, f);
            for v in damage::field_values(orig, f.width) {
                let mut steps = vec![Step::Query { id: 100, kind: QKind::Exists, path: "chara/a/std.bin".into() }];
                steps.push(Step::Damage { file: path.clone(), damage: Damage::Field { name: f.name.clone(), off: f.off, width: f.width, be: f.be, value: v } });
                steps.extend(all_queries(0));
                if file_kind(path) == "index" {
                    steps.push(Step::Reopen { id: 50 });
                    steps.extend(all_queries(50));
                    steps.push(Step::IndexOpen { id: 99, file: path.clone() });
                }
                push(steps, vec![], &mut out);
            }
        }
        // two fields of one structure damaged together (a consistent-looking pair passes checks
        // that compare one field with the other): both set to the same large value
        let prefix_of = |n: &str| n.rfind('.').map(|p| n[..p].to_string()).unwrap_or_default();
        for (i, f1) in fields.iter().enumerate() {
            for f2 in fields.iter().skip(i + 1) {
                if prefix_of(&f1.name) != prefix_of(&f2.name) || f1.width < 2 || f2.width < 2 {
                    continue;
                }
                let cap = |f: &Field, v: u64| if f.width >= 4 { v } else { v.min(0x7FFF) };
                for (v1, v2) in [(0x1_0000u64, 0x1_0000u64), (0x7FF_FFFF, 0x7FF_FFFF)] {
                    let mut steps = vec![Step::Query { id: 100, kind: QKind::Exists, path: "chara/a/std.bin".into() }];
                    for (f, v) in [(f1, v1), (f2, v2)] {
                        steps.push(Step::Damage { file: path.clone(), damage: Damage::Field { name: f.name.clone(), off: f.off, width: f.width, be: f.be, value: cap(f, v) } });
                    }
                    steps.extend(all_queries(0));
                    push(steps, vec![], &mut out);
                }
            }
        }
        // a block header claiming the largest deflated block the format allows (31999 bytes)
        // and the largest expansion deflate can produce (1032:1), with the payload cut short
        for f1 in fields.iter().filter(|f| f.name.ends_with("blk.stored_len")) {
            let Some(f2) = fields.iter().find(|f| f.off == f1.off + 4 && f.name.ends_with("blk.raw_len")) else { continue };
            for cut in [None, Some(f2.off + 8), Some(f2.off + 4 + 128)] {
                let mut steps = vec![Step::Query { id: 100, kind: QKind::Exists, path: "chara/a/std.bin".into() }];
                for (f, v) in [(f1, 31_999u64), (f2, 31_999 * 1032)] {
                    steps.push(Step::Damage { file: path.clone(), damage: Damage::Field { name: f.name.clone(), off: f.off, width: f.width, be: f.be, value: v } });
                }
                if let Some(at) = cut {
                    if at < bytes.len() {
                        steps.push(Step::Damage { file: path.clone(), damage: Damage::Truncate { at } });
                    }
                }
                steps.extend(all_queries(0));
                push(steps, vec![], &mut out);
            }
        }
        let mut cuts: Vec<usize> = vec![];
        for bd in bounds {
            for d in [-1i64, 0, 1] {
                let at = (*bd as i64 + d).clamp(0, bytes.len() as i64 - 1) as usize;
                if !cuts.contains(&at) {
                    cuts.push(at);
                }
            }
        }
        for at in cuts {
            // once on a cold handle, once after the index was cached
            for warm in [false, true] {
                let mut steps = vec![];
                if warm {
                    steps.push(Step::Query { id: 100, kind: QKind::Exists, path: "chara/a/std.bin".into() });
                }
                steps.push(Step::Damage { file: path.clone(), damage: Damage::Truncate { at } });
                steps.extend(all_queries(0));
                steps.push(Step::IndexOpen { id: 99, file: path.clone() });
                push(steps, vec![], &mut out);
            }
        }
        // missing / replaced by a directory, after the index was cached
        for todir in [false, true] {
            let mut steps = vec![Step::Query { id: 100, kind: QKind::Extract, path: "chara/a/std.bin".into() }];
            steps.push(if todir { Step::ToDir { file: path.clone() } } else { Step::Remove { file: path.clone() } });
            steps.extend(all_queries(0));
            steps.push(Step::Reopen { id: 50 });
            steps.extend(all_queries(50));
            push(steps, vec![], &mut out);
        }
    }
    // stray directories
    for name in [&b"e"[..], b"ex", b"exa", b"ex_", &[b'e', b'x', 0xFF], &[0xC3, 0x28], b"ab", b"ex1x", b""] {
        let mut steps = vec![Step::StrayDir { name_hex: crate::formats::hex(name) }, Step::Reopen { id: 50 }];
        steps.extend(all_queries(50));
        push(steps, vec![], &mut out);
    }
    // version files that are valid UTF-8 with one multi-byte character starting at every byte
    // position (cutting or slicing text by a byte count is only safe on character boundaries)
    for exp in [0u8, 1] {
        for ch in ["\u{e9}", "\u{6f22}", "\u{1f600}"] {
            for k in 0..44usize {
                let t = format!("{}{}{}", "2012.01.01.0000.0000.2012.01.01.0000.0000.20".get(..k).unwrap_or(""), ch, "12.01");
                for text in [t.as_bytes(), t[..k + ch.len()].as_bytes()] {
                    let mut steps = vec![Step::VersionText { exp, hex: crate::formats::hex(text) }, Step::Reopen { id: 50 }];
                    steps.push(Step::Query { id: 51, kind: QKind::Exists, path: if exp == 0 { "chara/a/std.bin".into() } else { "bg/ex1/x.bin".into() } });
                    push(steps, vec![], &mut out);
                }
            }
        }
    }
    // hostile completions during reassembly and during discovery
    for (call, nth, kind) in [
        (Call::Read, 30u32, Hostile::Eio),
        (Call::Read, 200, Hostile::Eio),
        (Call::Read, 400, Hostile::EarlyEof),
        (Call::Read, 600, Hostile::Eio),
        (Call::Seek, 10, Hostile::Eio),
        (Call::Seek, 60, Hostile::Eio),
        (Call::Open, 0, Hostile::Eacces),
        (Call::Open, 1, Hostile::Emfile),
    ] {
        for op in [2usize, 4, 6] {
            push(all_queries(0), vec![IoFault { op, call, nth, kind, sticky: false, path_contains: None }], &mut out);
        }
    }
    for (call, nth, kind) in [(Call::Metadata, 0u32, Hostile::Eacces), (Call::Metadata, 1, Hostile::Enoent), (Call::Metadata, 2, Hostile::Eio), (Call::ReadDir, 0, Hostile::Eacces), (Call::Read, 0, Hostile::Eio)] {
        let mut steps = vec![Step::Reopen { id: 50 }];
        steps.extend(all_queries(50));
        push(steps, vec![IoFault { op: 50, call, nth, kind, sticky: false, path_contains: None }], &mut out);
    }
    // direct dat reads at and around entry offsets
    for (file, off) in &lay.entries {
        for d in [0i64, 128, -128, 16, 1 << 20] {
            let o = (*off as i64 + d).max(0) as u64;
            push(vec![Step::DatRead { id: 7, file: file.clone(), offset: o }], vec![], &mut out);
        }
    }
    // A second install whose dat file is long: one field of a header large, another "as many as
    // physically fit behind it" for table entries of 2, 8 and 20 bytes (a count that large passes
    // every read of the table it sizes, and the table is really there). Kept apart from the small
    // install because the allocation bound grows with the bytes of the install.
    {
        let big = InstallSpec {
            platform: 0,
            repos: vec![RepoSpec {
                exp: 0,
                version_file: true,
                packs: vec![PackSpec {
                    cat: 0x04,
                    chunk: 0,
                    kind: IndexKind::Both,
                    entries: vec![
                        ent("chara/a/std.bin", 0, EntryKind::Standard { blocks: vec![b(600, Mode::Miniz(6)), b(300, Mode::Raw)], fill: 5 }),
                        // (more mips than the 13 surfaces a texture header has room for)
                        ent("chara/a/tex.tex", 0, EntryKind::Texture { header_len: 80, mips: (0..15).map(|i| vec![b(16 + i, if i % 2 == 0 { Mode::Raw } else { Mode::Miniz(6) })]).collect(), fill: 9, layout: 0 }),
                        ent("chara/a/big.bin", 0, EntryKind::Standard { blocks: vec![b(16000, Mode::Raw); 8], fill: 17 }),
                    ],
                }],
            }],
            strays: vec![],
            secondary_segments: true,
            table_order: 0,
        };
        // the long entry read back one byte per call, and in short pieces with interruptions: a
        // reader that mishandles a partial completion may also keep far too much in memory
        for benign in [
            Benign { one_byte_reads: true, ..Benign::quiet() },
            Benign { short_read: 200, eintr_read: 40, ..Benign::quiet() },
        ] {
            out.push(Doc {
                prop: "C18".into(),
                seed: 0xD1EC7ED0 + idx,
                cfg: Cfg::Hostile,
                benign,
                io_faults: vec![],
                body: Body::C18(C18Doc::Archive {
                    install: big.clone(),
                    steps: vec![
                        Step::Query { id: 1, kind: QKind::Extract, path: "chara/a/big.bin".into() },
                        Step::Query { id: 2, kind: QKind::Extract, path: "chara/a/tex.tex".into() },
                    ],
                }),
            });
            idx += 1;
        }
        let lay2 = layout_of(&big);
        let prefix_of = |n: &str| n.rfind('.').map(|p| n[..p].to_string()).unwrap_or_default();
        for (path, bytes, fields, _) in &lay2.files {
            if file_kind(path) != "dat" {
                continue;
            }
            for (i, f1) in fields.iter().enumerate() {
                // (the big entry's own structures have nothing behind them)
                if f1.name.contains("big") {
                    continue;
                }
                for f2 in fields.iter().skip(i + 1) {
                    if prefix_of(&f1.name) != prefix_of(&f2.name) || f1.width < 4 || f2.width < 4 {
                        continue;
                    }
                    for d in [2usize, 8, 20] {
                        for (v1, v2) in [
                            (0x7FFF_FFFFu64, (bytes.len().saturating_sub(f2.off + f2.width) / d) as u64),
                            ((bytes.len().saturating_sub(f1.off + f1.width) / d) as u64, 0x7FFF_FFFF),
                        ] {
                            let mut steps = vec![];
                            for (f, v) in [(f1, v1), (f2, v2)] {
                                steps.push(Step::Damage { file: path.clone(), damage: Damage::Field { name: f.name.clone(), off: f.off, width: f.width, be: f.be, value: v } });
                            }
                            let mut id = 0;
                            for p in ["chara/a/std.bin", "chara/a/tex.tex"] {
                                id += 1;
                                steps.push(Step::Query { id, kind: QKind::Extract, path: p.to_string() });
                            }
                            out.push(Doc {
                                prop: "C18".into(),
                                seed: 0xD1EC7ED0 + idx,
                                cfg: Cfg::Hostile,
                                benign: Benign::quiet(),
                                io_faults: vec![],
                                body: Body::C18(C18Doc::Archive { install: big.clone(), steps }),
                            });
                            idx += 1;
                        }
                    }
                }
            }
        }
    }
    // assets
    for format in super::assets::FORMATS {
        // (the texture builder has five variants, one per pixel format family, each with block-aligned
        // and with arbitrary dimensions)
        let aseeds: &[u64] = if *format == "tex" { &[1, 2, 3, 4, 5, 6, 7, 8, 9, 10] } else { &[1, 2] };
        for &aseed in aseeds {
            let bytes = super::assets::build(format, aseed);
            let fields = super::assets::fields(format, aseed);
            let mut adoc = |dmg: Vec<Damage>, out: &mut Vec<Doc>| {
                out.push(Doc {
                    prop: "C18".into(),
                    seed: 0xD1EC7ED0 + idx,
                    cfg: Cfg::Hostile,
                    benign: Benign::quiet(),
                    io_faults: vec![],
                    body: Body::C18(C18Doc::Asset { format: format.to_string(), seed: aseed, damage: dmg }),
                });
                idx += 1;
            };
            adoc(vec![], &mut out);
            let step = if bytes.len() <= 4096 { 1 } else { (bytes.len() / 2048).max(2) };
            let mut at = 0;
            while at < bytes.len() {
                adoc(vec![Damage::Truncate { at }], &mut out);
                at += step;
            }
            // two one-byte fields of one structure (enum tags, small indices) over every combination
            // of small values: a tag decides how the index next to it is used
            if aseed == aseeds[0] {
                let prefix_of = |n: &str| n.rfind('.').map(|p| n[..p].to_string()).unwrap_or_default();
                let mut budget = 12_000usize;
                for (i, f1) in fields.iter().enumerate() {
                    for f2 in fields.iter().skip(i + 1) {
                        if f1.width != 1 || f2.width != 1 || !f1.name.contains('.') || prefix_of(&f1.name) != prefix_of(&f2.name) {
                            continue;
                        }
                        const SMALL: [u64; 12] = [0, 1, 2, 3, 4, 8, 13, 14, 15, 16, 17, 255];
                        for v1 in SMALL {
                            for v2 in SMALL {
                                if budget == 0 {
                                    continue;
                                }
                                budget -= 1;
                                adoc(
                                    vec![
                                        Damage::Field { name: f1.name.clone(), off: f1.off, width: 1, be: f1.be, value: v1 },
                                        Damage::Field { name: f2.name.clone(), off: f2.off, width: 1, be: f2.be, value: v2 },
                                    ],
                                    &mut out,
                                );
                            }
                        }
                    }
                }
            }
            // a one-byte count or tag of one structure together with a one-byte index of another
            // structure (a count in one table bounds an index kept in another): values around the
            // lengths of the short fixed tables
            if aseed == aseeds[0] {
                let prefix_of = |n: &str| n.rfind('.').map(|p| n[..p].to_string()).unwrap_or_default();
                let ones: Vec<&Field> = fields.iter().filter(|f| f.width == 1 && f.name.contains('.')).collect();
                let mut budget = 30_000usize;
                for f1 in &ones {
                    for f2 in &ones {
                        if f1.off == f2.off || prefix_of(&f1.name) == prefix_of(&f2.name) {
                            continue;
                        }
                        for (v1, v2) in [(4u64, 3u64), (5, 4), (9, 8), (17, 16), (255, 3), (255, 254)] {
                            if budget == 0 {
                                continue;
                            }
                            budget -= 1;
                            adoc(
                                vec![
                                    Damage::Field { name: f1.name.clone(), off: f1.off, width: 1, be: f1.be, value: v1 },
                                    Damage::Field { name: f2.name.clone(), off: f2.off, width: 1, be: f2.be, value: v2 },
                                ],
                                &mut out,
                            );
                        }
                    }
                }
            }
            // text and tables carry bytes that mean something to the reader behind them (string
            // terminator, the start and end marks of an embedded macro, the all-ones filler): each
            // of them at every position of a small object
            if aseed == aseeds[0] && bytes.len() <= 4096 {
                for off in 0..bytes.len() {
                    for v in [0x00u8, 0x02, 0x03, 0xFF] {
                        if bytes[off] != v {
                            adoc(vec![Damage::SetByte { off, value: v }], &mut out);
                        }
                    }
                }
            }
            for f in &fields {
                let orig = damage::read_field(&bytes, f);
                for v in damage::field_values(orig, f.width) {
                    adoc(vec![Damage::Field { name: f.name.clone(), off: f.off, width: f.width, be: f.be, value: v }], &mut out);
                }
                if bytes.len() > 4096 {
                    for d in [0usize, 1] {
                        adoc(vec![Damage::Truncate { at: (f.off + d).min(bytes.len() - 1) }], &mut out);
                    }
                }
            }
        }
    }
    // cyclic link in a skeleton's Havok type table: a struct type whose only member is an array
    // of that same struct, followed by "member present" bytes. Kept as two damages of the valid
    // version-1 object (cut behind the file-info tag, then the self-referential tail).
    {
        let mut tail: Vec<u8> = vec![2 << 1, 1 << 1, b'X', 0, 0, 1 << 1, 1 << 1, b'm', (0x10 | 9) << 1, 1 << 1, b'X'];
        tail.extend_from_slice(&[4 << 1, 1 << 1, 0x01, 1 << 1]);
        tail.extend(std::iter::repeat(0x01u8).take(100_000));
        out.push(Doc {
            prop: "C18".into(),
            seed: 0xD1EC7ED0 + idx,
            cfg: Cfg::Hostile,
            benign: Benign::quiet(),
            io_faults: vec![],
            body: Body::C18(C18Doc::Asset {
                format: "sklb".to_string(),
                seed: 2,
                damage: vec![Damage::Truncate { at: 42 }, Damage::Append { hex: crate::formats::hex(&tail) }],
            }),
        });
    }
    out
}

fn shape_hash(b: &C18Doc) -> u64 {
    let s = serde_json::to_string(b).unwrap_or_default();
    fnv1a(FNV_INIT, s.as_bytes())
}

pub fn run(doc: &Doc, body: &C18Doc, trace: bool) -> RunResult {
    let mut h = Harness::new("C18", doc.seed, PROBES.len(), trace);
    match body {
        C18Doc::Archive { install, steps } => run_archive(&mut h, doc, install, steps),
        C18Doc::Asset { format, seed, damage } => {
            h.probe(25);
            super::assets::run_asset(&mut h, format, *seed, damage);
        }
    }
    h.finish(doc.cfg, shape_hash(body))
}

fn run_archive(h: &mut Harness, doc: &Doc, install: &InstallSpec, steps: &[Step]) {
    h.probe(0);
    let inst = build_install(&h.fs, install);
    h.set_policy(&doc.benign, &doc.io_faults);
    let total = inst.bytes;
    let platform = platform_of(install.platform);
    let mut game = match h.op(1000, "GameData::from_existing", total, || GameData::from_existing(platform.clone(), GAME)).done() {
        Some(g) => g,
        None => return,
    };
    let mut damaged: Vec<String> = vec![];
    let mut cached_index = false;
    for s in steps {
        if h.failed() {
            break;
        }
        let hostile_before = h.fs.stats(|s| s.hostile_fired.iter().sum::<u64>());
        match s {
            Step::Damage { file, damage } => {
                let kind = file_kind(file);
                let changed = h.fs.h_modify(file, |b| damage.apply(b));
                if changed {
                    h.at_rest[damage.kind_index()] += 1;
                    damaged.push(file.clone());
                    match damage {
                        Damage::Truncate { .. } => h.probe(if kind == "index" { 1 } else { 2 }),
                        Damage::Field { name, .. } => {
                            let n = name.as_str();
                            if n.contains("payload") {
                                h.probe(9);
                            } else if n.contains("ih.") {
                                h.probe(3);
                            } else if kind == "index" {
                                h.probe(4);
                            } else if n.contains("fi.") {
                                h.probe(5);
                            } else if n.contains("mi.") || n.contains("mbs") {
                                h.probe(6);
                            } else if n.contains("blk.") {
                                h.probe(7);
                            } else if n.contains("mip") || n.contains("sub") {
                                h.probe(8);
                            } else {
                                h.probe(5);
                            }
                        }
                        _ => h.probe(10),
                    }
                }
                h.log(&format!("damage {} {:?}", file, damage));
            }
            Step::Remove { file } => {
                if h.fs.h_exists(file) {
                    h.fs.h_remove(file);
                    h.at_rest[6] += 1;
                    damaged.push(file.clone());
                    if file_kind(file) == "dat" && cached_index {
                        h.probe(11);
                    }
                    if file_kind(file) == "index" {
                        h.probe(24);
                    }
                }
            }
            Step::ToDir { file } => {
                if h.fs.h_exists(file) {
                    h.fs.h_remove(file);
                    h.fs.h_mkdirs(file);
                    h.at_rest[7] += 1;
                    damaged.push(file.clone());
                    if file_kind(file) == "dat" {
                        h.probe(12);
                    }
                }
            }
            Step::StrayDir { name_hex } => {
                let name = crate::formats::unhex(name_hex);
                let mut key = format!("{}/sqpack/", GAME).into_bytes();
                key.extend_from_slice(&name);
                h.fs.h_mkdirs_bytes(&key);
                h.at_rest[8] += 1;
                if name.len() < 3 {
                    h.probe(13);
                }
                if std::str::from_utf8(&name).is_err() {
                    h.probe(14);
                }
                if name.starts_with(b"ex") && name.len() >= 3 && !name[2].is_ascii_digit() {
                    h.probe(15);
                }
            }
            Step::StrayFile { path, len } => {
                let p = format!("{}/{}", GAME, path);
                if !h.fs.h_exists(&p) {
                    h.fs.h_write(&p, vec![0x5a; *len]);
                    h.at_rest[8] += 1;
                }
            }
            Step::VersionText { exp, hex } => {
                let p = if *exp == 0 { format!("{}/ffxivgame.ver", GAME) } else { format!("{}/sqpack/ex{}/ex{}.ver", GAME, exp, exp) };
                if *exp == 0 || h.fs.h_exists(&format!("{}/sqpack/ex{}", GAME, exp)) {
                    h.fs.h_write(&p, crate::formats::unhex(hex));
                    h.at_rest[8] += 1;
                }
            }
            Step::Reopen { id } => {
                if !damaged.is_empty() {
                    h.probe(16);
                }
                match h.op(*id, "GameData::from_existing", total, || GameData::from_existing(platform.clone(), GAME)).done() {
                    Some(Some(g)) => {
                        game = Some(g);
                        cached_index = false;
                    }
                    Some(None) => {}
                    None => return,
                }
            }
            Step::IndexOpen { id, file } => {
                h.probe(21);
                let r = h.op(*id, "SqPackIndex::from_existing", total, || SqPackIndex::from_existing(file).map(|i| i.entries.len())).done();
                h.log(&format!("index open {} -> {:?}", file, r));
            }
            Step::DatRead { id, file, offset } => {
                h.probe(22);
                let r = h
                    .op(*id, "SqPackData::read_from_offset", total, || SqPackData::from_existing(file).and_then(|mut d| d.read_from_offset(*offset)).map(|v| v.len()))
                    .done();
                h.log(&format!("dat read {} @{} -> {:?}", file, offset, r));
                if let Some(None) = r {
                    let (f, o) = (file.clone(), *offset);
                    h.probe(18);
                    h.leak_check(*id, "SqPackData::read_from_offset", "failed-read", || {
                        let _ = SqPackData::from_existing(&f).and_then(|mut d| d.read_from_offset(o));
                    });
                }
            }
            Step::Query { id, kind, path } => {
                let Some(g) = game.as_mut() else { continue };
                if !damaged.is_empty() {
                    h.probe(23);
                }
                let entry = match kind {
                    QKind::Exists => "GameData::exists",
                    QKind::FindOffset => "GameData::find_offset",
                    QKind::Extract => "GameData::extract",
                };
                let r = h
                    .op(*id, entry, total, || match kind {
                        QKind::Exists => g.exists(path) as i64,
                        QKind::FindOffset => g.find_offset(path).map(|o| o as i64).unwrap_or(-1),
                        QKind::Extract => g.extract(path).map(|v| v.len() as i64).unwrap_or(-1),
                    })
                    .done();
                let Some(r) = r else { return };
                cached_index = true;
                h.log(&format!("{} {} -> {}", entry, path, r));
                if *kind == QKind::Extract {
                    if r < 0 {
                        h.probe(19);
                        // M5: a failed extraction, repeated, must not grow the heap
                        h.probe(18);
                        h.leak_check(*id, entry, "failed-extraction", || {
                            let _ = g.extract(path);
                        });
                    } else if !damaged.is_empty() {
                        h.probe(20);
                    }
                }
            }
        }
        let hostile_after = h.fs.stats(|s| s.hostile_fired.iter().sum::<u64>());
        if hostile_after > hostile_before {
            h.probe(17);
        }
        let code = match s {
            Step::Query { kind, .. } => 1 + *kind as u64,
            Step::Damage { damage, file } => 10 + damage.kind_index() as u64 + if file_kind(file) == "index" { 20 } else { 0 },
            Step::Remove { .. } => 50,
            Step::ToDir { .. } => 51,
            Step::StrayDir { .. } => 52,
            Step::StrayFile { .. } => 53,
            Step::VersionText { .. } => 57,
            Step::Reopen { .. } => 54,
            Step::IndexOpen { .. } => 55,
            Step::DatRead { .. } => 56,
        };
        h.state(&[code, damaged.len().min(3) as u64, (hostile_after > hostile_before) as u64, cached_index as u64]);
    }
    drop(game);
}

pub fn shrink(b: &C18Doc) -> Vec<C18Doc> {
    let mut out = vec![];
    match b {
        C18Doc::Archive { install, steps } => {
            for i in 0..steps.len() {
                let mut s = steps.clone();
                s.remove(i);
                out.push(C18Doc::Archive { install: install.clone(), steps: s });
            }
            // structural shrinking of the install would move the byte offsets of stored damage;
            // only strays and expansion repositories that no step refers to are dropped
            for i in 0..install.strays.len() {
                let mut n = install.clone();
                n.strays.remove(i);
                out.push(C18Doc::Archive { install: n, steps: steps.clone() });
            }
            for ri in 0..install.repos.len() {
                let folder = format!("/sqpack/{}/", crate::formats::sqpack::repo_folder(install.repos[ri].exp));
                let referred = steps.iter().any(|s| match s {
                    Step::Damage { file, .. } | Step::Remove { file } | Step::ToDir { file } | Step::IndexOpen { file, .. } | Step::DatRead { file, .. } => file.contains(&folder),
                    Step::Query { path, .. } => install.repos[ri].packs.iter().any(|p| p.entries.iter().any(|e| e.path.eq_ignore_ascii_case(path))),
                    _ => false,
                });
                if !referred && install.repos[ri].exp != 0 {
                    let mut n = install.clone();
                    n.repos.remove(ri);
                    out.push(C18Doc::Archive { install: n, steps: steps.clone() });
                }
            }
        }
        C18Doc::Asset { format, seed, damage } => {
            for i in 0..damage.len() {
                let mut d = damage.clone();
                d.remove(i);
                out.push(C18Doc::Asset { format: format.clone(), seed: *seed, damage: d });
            }
        }
    }
    out
}
