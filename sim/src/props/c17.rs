//! C17 — untrusted user and launcher files never crash the caller; a patch that fails part-way
//! reports an error rather than success.

use super::c03::{self, C03Doc, Via};
use super::damage::{self, Damage};
use super::{Body, Doc};
use crate::formats::zipatch::{encode_patch, Chunk};
use crate::formats::{hex, Bytes, Field};
use crate::harness::{Cfg, Harness, RunResult, Tier};
use crate::rng::{fill_bytes, fnv1a, Rng, FNV_INIT};
use crate::simfs::{Benign, Call, Hostile, IoFault};
use physis::bootdata::BootData;
use serde::{Deserialize, Serialize};

#[derive(Clone, Debug, PartialEq, Eq, Serialize, Deserialize)]
pub enum BaseRef {
    /// a file under /repo/resources/tests
    Sample(String),
    /// produced by a small builder in this file
    Built { format: String, seed: u64 },
}

#[derive(Clone, Debug, Serialize, Deserialize)]
pub enum C17Doc {
    Patch {
        base: C03Doc,
        /// (patch index, fault)
        damage: Vec<(usize, Damage)>,
        /// patch file absent / replaced by a directory
        missing: Option<(usize, bool)>,
        /// regular files placed where the reference semantics needs a directory (relative paths)
        #[serde(default)]
        obstruct: Vec<String>,
    },
    Boot { dir_exists: bool, ver: Option<Bytes> },
    Launcher { prefix: usize, url_kind: u8, url: String, terminated: bool, suffix: usize, missing: bool, damage: Vec<Damage> },
    Buffer { format: String, base: BaseRef, damage: Vec<Damage> },
}

pub const FORMATS: [&str; 8] = ["cfg", "exl", "fiin", "chardat", "gearsets", "log", "patchlist_boot", "patchlist_game"];

pub const PROBES: [&str; 31] = [
    "patch_scenario",
    "patch_io_fault_fired",
    "patch_truncated",
    "patch_truncated_at_chunk_boundary",
    "patch_field_corrupted",
    "patch_missing_or_directory",
    "patch_command_before_target_info",
    "apply_returned_ok_under_fault",
    "apply_returned_err_under_fault",
    "fault_on_patch_read",
    "fault_on_target_write",
    "fault_on_target_open",
    "fault_on_mkdir_or_remove",
    "boot_scenario",
    "launcher_scenario",
    "launcher_url_found",
    "buffer_cfg_parsed_past_magic",
    "buffer_exl_parsed_past_magic",
    "buffer_fiin_parsed_past_magic",
    "buffer_chardat_parsed_past_magic",
    "buffer_gearsets_parsed_past_magic",
    "buffer_log_parsed_past_magic",
    "buffer_patchlist_boot_parsed_past_magic",
    "buffer_patchlist_game_parsed_past_magic",
    "buffer_truncated",
    "buffer_field_corrupted",
    "buffer_sector_or_bit_damage",
    "buffer_undamaged_parsed",
    "sticky_fault",
    "systematic_truncation_sweep",
    "target_directory_obstructed_by_file",
];

const SAMPLES: [(&str, &str); 9] = [
    ("cfg", "FFXIV.cfg"),
    ("cfg", "FFXIV.modified.cfg"),
    ("exl", "test.exl"),
    ("fiin", "test.fiin"),
    ("chardat", "chardat/arr.dat"),
    ("chardat", "chardat/heavensward.dat"),
    ("chardat", "chardat/shadowbringers.dat"),
    ("chardat", "chardat/stormblood.dat"),
    ("gearsets", "gearsets/simple.dat"),
];

pub fn sample_bytes(name: &str) -> Vec<u8> {
    std::fs::read(format!("/repo/resources/tests/{}", name)).unwrap_or_else(|e| panic!("HARNESS: cannot read sample {}: {}", name, e))
}

const FILTERS: [u8; 8] = [3, 20, 64, 41, 57, 29, 59, 170];
const CHANNELS: [u8; 8] = [0, 2, 3, 8, 50, 29, 32, 41];

pub fn build(format: &str, seed: u64) -> Vec<u8> {
    let mut r = Rng::derive(seed, 0xB17D);
    match format {
        "cfg" => {
            let mut s = String::new();
            for c in 0..r.range(0, 4) {
                s.push_str(&format!("\r\n<Category {}>\r\n", c));
                for k in 0..r.range(0, 5) {
                    s.push_str(&format!("Key{}\t{}\r\n", k, r.below(1000)));
                }
            }
            s.push('\0');
            s.into_bytes()
        }
        "exl" => {
            let mut s = format!("EXLT,{}", r.below(5));
            for i in 0..r.range(0, 8) {
                if r.chance(1, 6) {
                    s.push_str(&format!("\r\n#comment,{}", i));
                } else {
                    s.push_str(&format!("\r\nSheet{}/Sub{},{}", i, r.below(9), r.range(0, u32::MAX as u64) as i64 - 5));
                }
            }
            s.into_bytes()
        }
        "fiin" => {
            let n = r.range(0, 6) as usize;
            let mut b = Vec::new();
            b.extend_from_slice(b"FileInfo");
            b.resize(24, 0);
            b.extend_from_slice(&1024i32.to_le_bytes());
            b.extend_from_slice(&((n * 96) as i32).to_le_bytes());
            b.resize(1024, 0);
            for i in 0..n {
                b.extend_from_slice(&(r.below(1 << 30) as i32).to_le_bytes());
                b.extend_from_slice(&[0; 4]);
                let mut name = format!("file{}_{}.exe", i, r.below(100)).into_bytes();
                name.resize(64, 0);
                b.extend_from_slice(&name);
                let mut sha = fill_bytes(20, r.next_u64() & !3);
                sha.resize(24, 0);
                b.extend_from_slice(&sha);
            }
            b
        }
        "log" => {
            let n = r.range(0, 6) as usize;
            let mut msgs: Vec<Vec<u8>> = vec![];
            for i in 0..n {
                msgs.push(format!("Player {} says hello {}", i, r.below(1000)).into_bytes());
            }
            let mut b = Vec::new();
            b.extend_from_slice(&0u32.to_le_bytes());
            b.extend_from_slice(&(n as u32).to_le_bytes());
            let mut off = 0u32;
            for m in &msgs {
                b.extend_from_slice(&off.to_le_bytes());
                off += 10 + m.len() as u32;
            }
            for m in &msgs {
                b.extend_from_slice(&(1_700_000_000u32 + r.below(1000) as u32).to_le_bytes());
                b.push(*r.pick(&FILTERS));
                b.push(*r.pick(&CHANNELS));
                b.extend_from_slice(&1u32.to_le_bytes());
                b.extend_from_slice(m);
            }
            b
        }
        "patchlist_boot" | "patchlist_game" => {
            let game = format == "patchlist_game";
            let id = "477D80B1_38BC_41d4_8B48_5273ADB89CAC";
            let n = r.range(0, 4);
            let mut rows = String::new();
            let mut total = 0u64;
            for i in 0..n {
                let len = r.below(1 << 31);
                total += len;
                if game {
                    let nh = r.range(1, 4);
                    let hashes: Vec<String> = (0..nh).map(|_| hex(&fill_bytes(20, r.next_u64() & !3))).collect();
                    rows.push_str(&format!(
                        "{}\t{}\t71\t11\t2023.09.{:02}.0000.0000\tsha1\t50000000\t{}\thttp://patch-dl.ffxiv.com/game/4e9a232b/D2023.09.{:02}.0000.0000.patch\r\n",
                        len,
                        r.below(1 << 40),
                        15 + i,
                        hashes.join(","),
                        15 + i
                    ));
                } else {
                    rows.push_str(&format!(
                        "{}\t{}\t19\t18\t2023.09.{:02}.0000.0001\thttp://patch-dl.ffxiv.com/boot/2b5cbc63/D2023.09.{:02}.0000.0001.patch\r\n",
                        len,
                        r.below(1 << 36),
                        14 + i,
                        14 + i
                    ));
                }
            }
            format!(
                "--{id}\r\nContent-Type: application/octet-stream\r\nContent-Location: ffxivpatch/2b5cbc63/metainfo/D2023.04.28.0000.0001.http\r\nX-Patch-Length: {total}\r\n\r\n{rows}--{id}--\r\n"
            )
            .into_bytes()
        }
        _ => panic!("HARNESS: no builder for {}", format),
    }
}

pub fn base_bytes(base: &BaseRef) -> Vec<u8> {
    match base {
        BaseRef::Sample(n) => sample_bytes(n),
        BaseRef::Built { format, seed } => build(format, *seed),
    }
}

fn bases_for(format: &str) -> Vec<BaseRef> {
    let mut v: Vec<BaseRef> = SAMPLES.iter().filter(|(f, _)| *f == format).map(|(_, n)| BaseRef::Sample(n.to_string())).collect();
    if ["cfg", "exl", "fiin", "log", "patchlist_boot", "patchlist_game"].contains(&format) {
        for s in 0..3u64 {
            v.push(BaseRef::Built { format: format.to_string(), seed: s + 1 });
        }
    }
    v
}

/// Field table per format (offsets into the stored object).
pub fn fields_for(format: &str, bytes: &[u8]) -> Vec<Field> {
    let f = |name: &str, off: usize, width: usize| Field { name: name.to_string(), off, width, be: false };
    match format {
        "gearsets" => {
            let mut v = vec![f("dat.magic", 0, 4), f("dat.max_size", 4, 4), f("dat.content_size", 8, 4), f("dat.end_of_header", 16, 1)];
            // a few bytes of the obfuscated table: set index, name bytes, item ids
            for off in [17usize, 18, 19, 21, 22, 23, 70, 78, 86, 90, 17 + 4 + 444, 17 + 4 + 445] {
                if off < bytes.len() {
                    v.push(f(&format!("table.u8@{}", off), off, 1));
                }
            }
            v
        }
        "chardat" => {
            let mut v = vec![f("magic", 0, 4), f("version", 4, 4), f("checksum", 8, 4)];
            for off in 16..bytes.len().min(48) {
                v.push(f(&format!("customize.u8@{}", off), off, 1));
            }
            v.push(f("timestamp", 43, 4));
            v.push(f("comment.first", 47, 1));
            if bytes.len() > 210 {
                v.push(f("comment.last", bytes.len() - 1, 1));
            }
            v
        }
        "fiin" => {
            let mut v = vec![f("magic", 0, 8), f("unknown", 24, 4), f("entries_size", 28, 4)];
            let n = bytes.len().saturating_sub(1024) / 96;
            for i in 0..n.min(4) {
                v.push(f(&format!("entry{}.file_size", i), 1024 + 96 * i, 4));
                v.push(f(&format!("entry{}.name0", i), 1024 + 96 * i + 8, 1));
                v.push(f(&format!("entry{}.name_last", i), 1024 + 96 * i + 71, 1));
            }
            v
        }
        "log" => {
            let mut v = vec![f("content_size", 0, 4), f("file_size", 4, 4)];
            let n = if bytes.len() >= 8 { u32::from_le_bytes([bytes[4], bytes[5], bytes[6], bytes[7]]) as usize } else { 0 };
            for i in 0..n.min(6) {
                v.push(f(&format!("offset{}", i), 8 + 4 * i, 4));
            }
            let base = 8 + 4 * n;
            if base + 10 <= bytes.len() {
                v.push(f("entry0.timestamp", base, 4));
                v.push(f("entry0.filter", base + 4, 1));
                v.push(f("entry0.channel", base + 5, 1));
            }
            v
        }
        _ => damage::generic_fields(bytes.len(), 0),
    }
}

fn boundaries_for(format: &str, bytes: &[u8]) -> Vec<usize> {
    match format {
        "gearsets" => vec![4, 8, 12, 16, 17, 21, 21 + 444, 21 + 888, bytes.len() - 1],
        "chardat" => vec![4, 8, 12, 16, 42, 43, 47, 48, 211],
        "fiin" => vec![8, 24, 28, 32, 1024, 1028, 1032, 1096, 1120, 1216],
        "log" => vec![4, 8, 12, 16, 20],
        _ => {
            // text formats: line ends
            let mut v: Vec<usize> = bytes.iter().enumerate().filter(|(_, b)| **b == b'\n').map(|(i, _)| i).take(40).collect();
            v.push(bytes.len().saturating_sub(1));
            v
        }
    }
}

fn text_damage(r: &mut Rng, bytes: &[u8]) -> Damage {
    let len = bytes.len().max(1);
    match r.below(6) {
        0 => Damage::SetByte { off: r.usize_below(len), value: *r.pick(&[b'<', b'>', b'\t', b'\r', b'\n', 0, 0xFF, 0xC3, b',', b'-']) },
        1 => Damage::Insert { off: r.usize_below(len), hex: hex(*r.pick(&[&b"<"[..], b">", b"<>", b"><", b">a<", b"\r\n", b"\t", b"\r\n\r\n", b"\xff\xfe", b"X-Patch-Length: ", b"\t\t\t", b"99999999999999999999", "\u{e9}".as_bytes(), "\u{6f22}".as_bytes(), "\u{1f600}".as_bytes(), "\u{e9}\u{6f22}".as_bytes()])) },
        2 => {
            // delete a span: modelled as truncate + append of the tail is not expressible; drop a line end instead
            let nl: Vec<usize> = bytes.iter().enumerate().filter(|(_, b)| **b == b'\n' || **b == b'\t').map(|(i, _)| i).collect();
            if nl.is_empty() {
                Damage::BitFlip { bit: r.usize_below(len * 8) }
            } else {
                Damage::SetByte { off: *r.pick(&nl), value: b' ' }
            }
        }
        3 => Damage::Truncate { at: r.usize_below(len) },
        4 => Damage::BitFlip { bit: r.usize_below(len * 8) },
        _ => Damage::Append { hex: hex(*r.pick(&[&b"\r\n"[..], b"<", b"\r\n<\r\n", b"a\tb", b"--\r\n", b"\r\n1\t2\r\n"])) },
    }
}

fn is_text(format: &str) -> bool {
    matches!(format, "cfg" | "exl" | "patchlist_boot" | "patchlist_game")
}

fn draw_io_faults(r: &mut Rng, profile: &[[u32; 10]], n_patches: usize) -> Vec<IoFault> {
    let mut out = vec![];
    let n = 1 + r.below(3) as usize;
    // candidate (op, call) pairs with their call counts
    let mut cands: Vec<(usize, Call, u32, u32)> = vec![];
    let weights = |c: Call| -> u32 {
        match c {
            Call::Read | Call::Write => 4,
            Call::Open => 3,
            Call::CreateDirAll | Call::SetLen | Call::RemoveFile => 3,
            _ => 1,
        }
    };
    for (op, counts) in profile.iter().enumerate() {
        if !(op < n_patches || op == 100 || op == 101) {
            continue;
        }
        for c in crate::simfs::CALLS {
            let k = counts[c.idx()];
            if k > 0 {
                cands.push((op, c, k, weights(c)));
            }
        }
    }
    if cands.is_empty() {
        return out;
    }
    let total: u32 = cands.iter().map(|c| c.3).sum();
    for _ in 0..n {
        let mut pick = r.below(total as u64) as u32;
        let mut chosen = cands[0];
        for c in &cands {
            if pick < c.3 {
                chosen = *c;
                break;
            }
            pick -= c.3;
        }
        let (op, call, count, _) = chosen;
        let kind = match call {
            Call::Open => *r.pick(&[Hostile::Enoent, Hostile::Eacces, Hostile::Erofs, Hostile::Emfile, Hostile::Eio, Hostile::Enospc]),
            Call::Read => *r.pick(&[Hostile::Eio, Hostile::EarlyEof]),
            Call::Write => *r.pick(&[Hostile::Enospc, Hostile::Eio, Hostile::WriteZero]),
            Call::SetLen => *r.pick(&[Hostile::Eio, Hostile::Enospc]),
            Call::CreateDirAll => *r.pick(&[Hostile::Eacces, Hostile::Erofs, Hostile::Enospc, Hostile::Eexist]),
            Call::RemoveFile => *r.pick(&[Hostile::Eacces, Hostile::Erofs, Hostile::Eio]),
            Call::RemoveDirAll => *r.pick(&[Hostile::Eacces, Hostile::Eio]),
            Call::Metadata => *r.pick(&[Hostile::Enoent, Hostile::Eacces]),
            Call::ReadDir => Hostile::Eacces,
            Call::Seek => Hostile::Eio,
        };
        // bias towards the first and last calls of the class, where state is in flight
        let nth = match r.below(4) {
            0 => 0,
            1 => count - 1,
            _ => r.below(count as u64) as u32,
        };
        out.push(IoFault { op, call, nth, kind, sticky: matches!(call, Call::Write | Call::Open) && r.chance(1, 3), path_contains: None });
    }
    out
}

/// Fault-free run of the patch scenario to learn how many calls of each class every operation
/// makes (same sub-seeds, so identical up to the first fault).
fn profile_patch(seed: u64, benign: &Benign, base: &C03Doc) -> Vec<[u32; 10]> {
    let mut h = Harness::new("C17", seed, PROBES.len(), false);
    c03::install_pre(&h, base);
    h.set_policy(benign, &[]);
    h.mute_probes = true;
    c03::run_patches(&mut h, base, false, &[]);
    let p = h.fs.profile();
    let _ = h.finish(Cfg::Benign, 0);
    p
}

pub fn generate(seed: u64, tier: Tier) -> Doc {
    let mut r = Rng::derive(seed, 0xC17);
    let benign = if r.chance(1, 3) { Benign::quiet() } else { Benign::draw(&mut r) };
    let mut io_faults = vec![];
    let body = match r.below(20) {
        0..=9 => {
            // a C03 scenario (valid tree, valid patches) plus faults
            let base_doc = c03::generate(r.next_u64(), tier);
            let Body::C03(mut base) = base_doc.body else { unreachable!() };
            let mut dmg: Vec<(usize, Damage)> = vec![];
            let mut missing = None;
            let mut obstruct: Vec<String> = vec![];
            let np = base.patches.len();
            match r.below(12) {
                11 => {
                    // a full disk made of patch content: one command addresses a position
                    // beyond the largest file the simulated disk holds (96 MiB), as a 32-bit
                    // block offset (x 128: up to 512 GiB) or a 64-bit file offset may
                    let pi = r.usize_below(np);
                    c03::address_beyond_disk(&mut r, &mut base.patches[pi]);
                }
                10 => {
                    // an unwritable target made of tree state: a file sits where a directory
                    // has to be created
                    let before = c03::initial_model(&base.pre, &base.pre_dirs);
                    let mut after = before.clone();
                    for p in &base.patches {
                        for c in p {
                            after.apply(c);
                            after.settle();
                        }
                    }
                    let cands: Vec<String> = after
                        .dirs
                        .iter()
                        .filter(|d| !before.dirs.contains(*d) && !after.unconstrained.contains(*d) && !after.removed_dirs.contains(*d))
                        .filter(|d| !before.files.keys().any(|f| f.starts_with(&format!("{}/", d))))
                        .cloned()
                        .collect();
                    if !cands.is_empty() {
                        obstruct.push(r.pick(&cands).clone());
                    }
                }
                0..=3 => {
                    let prof = profile_patch(seed, &benign, &base);
                    io_faults = draw_io_faults(&mut r, &prof, np);
                }
                4 | 5 => {
                    // truncated patch stream
                    let pi = r.usize_below(np);
                    let enc = encode_patch(&base.patches[pi]);
                    let at = if r.chance(2, 3) {
                        let b = *r.pick(&enc.boundaries) as i64 + r.range(0, 2) as i64 - 1;
                        b.clamp(0, enc.bytes.len() as i64 - 1) as usize
                    } else {
                        r.usize_below(enc.bytes.len())
                    };
                    dmg.push((pi, Damage::Truncate { at }));
                }
                6 | 7 => {
                    // stored corruption of the patch
                    let pi = r.usize_below(np);
                    let enc = encode_patch(&base.patches[pi]);
                    let n = 1 + r.below(2);
                    for _ in 0..n {
                        let d = if r.chance(3, 4) {
                            damage::draw_field(&mut r, &enc.bytes, &enc.fields).unwrap_or(Damage::BitFlip { bit: 100 })
                        } else {
                            damage::draw(&mut r, &enc.bytes, &enc.boundaries, &enc.fields)
                        };
                        dmg.push((pi, d));
                    }
                }
                8 => {
                    // commands before any target info
                    let pi = r.usize_below(np);
                    base.patches[pi].retain(|c| !matches!(c, Chunk::Target { .. }));
                }
                _ => {
                    missing = Some((r.usize_below(np), r.chance(1, 3)));
                }
            }
            if r.chance(1, 8) && io_faults.is_empty() {
                let prof = profile_patch(seed, &benign, &base);
                io_faults = draw_io_faults(&mut r, &prof, np);
            }
            C17Doc::Patch { base, damage: dmg, missing, obstruct }
        }
        10 => {
            io_faults = if r.chance(1, 2) {
                vec![IoFault {
                    op: 0,
                    call: *r.pick(&[Call::Metadata, Call::Open, Call::Read]),
                    nth: r.below(2) as u32,
                    kind: *r.pick(&[Hostile::Eio, Hostile::Eacces, Hostile::Enoent, Hostile::EarlyEof]),
                    sticky: false,
                    path_contains: None,
                }]
            } else {
                vec![]
            };
            C17Doc::Boot {
                dir_exists: r.chance(4, 5),
                ver: match r.below(6) {
                    0 => None,
                    1 => Some(Bytes::Hex(hex(&fill_bytes(r.range(0, 40) as usize, r.next_u64() & !3)))),
                    2 | 3 => {
                        // valid UTF-8 of any length with multi-byte characters anywhere
                        let mut t = String::new();
                        for _ in 0..r.below(48) {
                            t.push(*r.pick(&['2', '0', '.', '1', 'a', ' ', '\n', '\r', '\u{e9}', '\u{6f22}', '\u{1f600}']));
                        }
                        Some(Bytes::Hex(hex(t.as_bytes())))
                    }
                    _ => Some(Bytes::Hex(hex(b"2012.01.01.0000.0000"))),
                },
            }
        }
        11 | 12 => {
            let url_kind = r.below(3) as u8;
            let mut dmg = vec![];
            if r.chance(2, 3) {
                let total = 64 + 200;
                dmg.push(match r.below(3) {
                    0 => Damage::Truncate { at: r.usize_below(total) },
                    1 => Damage::BitFlip { bit: r.usize_below(total * 8) },
                    _ => Damage::SetByte { off: r.usize_below(total), value: *r.pick(&[0u8, 0xD8, 0xDC, 0xFF]) },
                });
            }
            if r.chance(1, 6) {
                io_faults.push(IoFault { op: 0, call: *r.pick(&[Call::Open, Call::Read]), nth: 0, kind: *r.pick(&[Hostile::Eio, Hostile::Eacces]), sticky: false, path_contains: None });
            }
            C17Doc::Launcher {
                prefix: r.range(0, 64) as usize,
                url_kind,
                url: format!("/frontier/{}?lng=en&rgn={}", r.below(1000), r.below(4)),
                terminated: r.chance(4, 5),
                suffix: r.range(0, 64) as usize,
                missing: r.chance(1, 10),
                damage: dmg,
            }
        }
        _ => {
            let format = *r.pick(&FORMATS);
            let bases = bases_for(format);
            let base = r.pick(&bases).clone();
            let base = if let BaseRef::Built { format, .. } = &base {
                if r.chance(1, 2) {
                    BaseRef::Built { format: format.clone(), seed: r.next_u64() >> 16 }
                } else {
                    base
                }
            } else {
                base
            };
            let bytes = base_bytes(&base);
            let fields = fields_for(format, &bytes);
            let bounds = boundaries_for(format, &bytes);
            let n = match r.below(6) {
                0 => 0,
                1..=3 => 1,
                4 => 2,
                _ => 3,
            };
            let mut dmg = vec![];
            let mut cur = bytes.clone();
            for _ in 0..n {
                let d = if is_text(format) && r.chance(2, 3) { text_damage(&mut r, &cur) } else { damage::draw(&mut r, &cur, &bounds, &fields) };
                d.apply(&mut cur);
                dmg.push(d);
            }
            C17Doc::Buffer { format: format.to_string(), base, damage: dmg }
        }
    };
    Doc { prop: "C17".into(), seed, cfg: Cfg::Hostile, benign, io_faults, body: Body::C17(body) }
}

/// Systematic part: every truncation point of every small base object, and every value of the
/// field table for every named field of the binary formats.
pub fn directed() -> Vec<Doc> {
    let mut out = vec![];
    let mut idx = 0u64;
    let mut push = |body: C17Doc, out: &mut Vec<Doc>| {
        out.push(Doc { prop: "C17".into(), seed: 0xD1EC7ED0 + idx, cfg: Cfg::Hostile, benign: Benign::quiet(), io_faults: vec![], body: Body::C17(body) });
        idx += 1;
    };
    for format in FORMATS {
        for base in bases_for(format) {
            let bytes = base_bytes(&base);
            push(C17Doc::Buffer { format: format.to_string(), base: base.clone(), damage: vec![] }, &mut out);
            let step = if bytes.len() <= 4096 { 1 } else { 97 };
            let mut at = 0;
            while at < bytes.len() {
                push(C17Doc::Buffer { format: format.to_string(), base: base.clone(), damage: vec![Damage::Truncate { at }] }, &mut out);
                at += step;
            }
            if bytes.len() > 4096 {
                for b in boundaries_for(format, &bytes) {
                    for d in [-1i64, 0, 1] {
                        let at = (b as i64 + d).clamp(0, bytes.len() as i64 - 1) as usize;
                        push(C17Doc::Buffer { format: format.to_string(), base: base.clone(), damage: vec![Damage::Truncate { at }] }, &mut out);
                    }
                }
            }
            if is_text(format) {
                // structural tokens inserted at the start, at every line start, behind every
                // separator and at the end (at most 64 places per object)
                let mut places: Vec<usize> = vec![0, bytes.len()];
                for (i, b) in bytes.iter().enumerate() {
                    if matches!(*b, b'\n' | b'\t' | b'<' | b'>') {
                        places.push(i + 1);
                    }
                }
                // and inside ordinary lines, for small objects
                if bytes.len() <= 600 {
                    places.extend((0..bytes.len()).step_by(5));
                }
                places.sort();
                places.dedup();
                places.truncate(160);
                const TOKENS: [&[u8]; 13] = [b"<", b">", b"<>", b"><", b">a<", b"\r\n", b"\t", b"\r\n\r\n", b"X-Patch-Length: ", b"\t\t\t", b"99999999999999999999", "\u{e9}".as_bytes(), "\u{6f22}".as_bytes()];
                for at in &places {
                    for t in TOKENS {
                        push(C17Doc::Buffer { format: format.to_string(), base: base.clone(), damage: vec![Damage::Insert { off: *at, hex: hex(t) }] }, &mut out);
                    }
                }
            }
            if bytes.len() <= 4096 {
                // bytes that mean something to a reader (terminator, macro marks, all-ones filler,
                // line and column separators) at every position of a small object
                let marks: &[u8] = if is_text(format) { &[0x00, b'\n', b'\t', b'<', 0xFF] } else { &[0x00, 0x02, 0x03, 0xFF] };
                for off in 0..bytes.len() {
                    for v in marks {
                        if bytes[off] != *v {
                            push(C17Doc::Buffer { format: format.to_string(), base: base.clone(), damage: vec![Damage::SetByte { off, value: *v }] }, &mut out);
                        }
                    }
                }
            }
            if !is_text(format) {
                // two header fields made large together (one may be the bound the other is checked against)
                let fs = fields_for(format, &bytes);
                for (i, f1) in fs.iter().enumerate().take(12) {
                    for f2 in fs.iter().take(12).skip(i + 1) {
                        if f1.width < 2 || f2.width < 2 {
                            continue;
                        }
                        let large = |f: &Field| if f.width >= 4 { 0x7FFF_FFF0u64 } else { 0x7FF0 };
                        push(
                            C17Doc::Buffer {
                                format: format.to_string(),
                                base: base.clone(),
                                damage: vec![
                                    Damage::Field { name: f1.name.clone(), off: f1.off, width: f1.width, be: f1.be, value: large(f1) },
                                    Damage::Field { name: f2.name.clone(), off: f2.off, width: f2.width, be: f2.be, value: large(f2) },
                                ],
                            },
                            &mut out,
                        );
                    }
                }
                for f in fields_for(format, &bytes) {
                    let orig = damage::read_field(&bytes, &f);
                    for v in damage::field_values(orig, f.width) {
                        push(
                            C17Doc::Buffer {
                                format: format.to_string(),
                                base: base.clone(),
                                damage: vec![Damage::Field { name: f.name.clone(), off: f.off, width: f.width, be: f.be, value: v }],
                            },
                            &mut out,
                        );
                    }
                }
            }
        }
    }
    // launcher and boot data, plain
    push(C17Doc::Launcher { prefix: 10, url_kind: 0, url: "/frontier/x".into(), terminated: true, suffix: 9, missing: false, damage: vec![] }, &mut out);
    push(C17Doc::Launcher { prefix: 0, url_kind: 1, url: "/old".into(), terminated: true, suffix: 0, missing: false, damage: vec![] }, &mut out);
    push(C17Doc::Boot { dir_exists: true, ver: Some(Bytes::Hex(hex(b"2012.01.01.0000.0000"))) }, &mut out);
    push(C17Doc::Boot { dir_exists: false, ver: None }, &mut out);
    // a version file that is valid UTF-8 with one multi-byte character starting at every byte
    // position (cutting or slicing a string by a byte count is only safe on character boundaries)
    for ch in ["\u{e9}", "\u{6f22}", "\u{1f600}"] {
        for k in 0..44usize {
            let t = format!("{}{}{}", "2012.01.01.0000.0000.2012.01.01.0000.0000.20".get(..k).unwrap_or(""), ch, "12.01");
            push(C17Doc::Boot { dir_exists: true, ver: Some(Bytes::Hex(hex(t.as_bytes()))) }, &mut out);
            push(C17Doc::Boot { dir_exists: true, ver: Some(Bytes::Hex(hex(t[..k + ch.len()].as_bytes()))) }, &mut out);
        }
    }
    // patches: every truncation point of one small patch, every field value of its field map
    let small = C03Doc {
        via: Via::Direct,
        pre: vec![],
        pre_dirs: vec!["sqpack".into(), "sqpack/ffxiv".into()],
        failed_prelude: None,
        patches: vec![vec![
            Chunk::Fhdr3 { kind: "DIFF".into(), counters: vec![] },
            Chunk::Aply { option: 1, value: 0 },
            Chunk::Adir { name: "adir_0".into() },
            Chunk::Target { platform: 0, region: -1, debug: false, version: 0, deleted: 0, seek: 0 },
            Chunk::AddData { main: 0x0a, sub: 0, file: 0, block_offset: 1, data: Bytes::Fill { len: 128, fill: 7 }, delete_blocks: 1 },
            Chunk::DeleteData { main: 0x0a, sub: 0, file: 0, block_offset: 0, blocks: 1 },
            Chunk::ExpandData { main: 0x0a, sub: 0, file: 1, block_offset: 0, blocks: 2 },
            Chunk::HeaderUpdate { index: true, kind: 'V', main: 0x0a, sub: 0, file: 0, data: Bytes::Fill { len: 1024, fill: 9 } },
            Chunk::AddFile {
                path: "boot/a.bin".into(),
                offset: 0,
                expansion: 0,
                blocks: vec![
                    crate::formats::zipatch::FileBlock { data: Bytes::Fill { len: 200, fill: 5 }, mode: crate::formats::Mode::Miniz(6) },
                    crate::formats::zipatch::FileBlock { data: Bytes::Fill { len: 40, fill: 6 }, mode: crate::formats::Mode::Raw },
                ],
            },
            Chunk::DeleteFile { path: "boot/a.bin".into(), expansion: 0 },
            Chunk::MakeDirTree { path: "mk/a/".into(), expansion: 0 },
            Chunk::RemoveAll { expansion: 2 },
            Chunk::Eof,
        ]],
    };
    let enc = encode_patch(&small.patches[0]);
    for at in 0..enc.bytes.len() {
        // the 1 KiB header-update payload and the data blocks need no per-byte sweep
        let in_payload = enc.boundaries.windows(2).any(|w| at > w[0] + 64 && at + 8 < w[1]);
        if in_payload && at % 61 != 0 {
            continue;
        }
        push(C17Doc::Patch { base: small.clone(), damage: vec![(0, Damage::Truncate { at })], missing: None, obstruct: vec![] }, &mut out);
    }
    for f in &enc.fields {
        let orig = damage::read_field(&enc.bytes, f);
        for v in damage::field_values(orig, f.width) {
            push(
                C17Doc::Patch {
                    base: small.clone(),
                    damage: vec![(0, Damage::Field { name: f.name.clone(), off: f.off, width: f.width, be: f.be, value: v })],
                    missing: None,
                    obstruct: vec![],
                },
                &mut out,
            );
        }
    }
    // two faults in one chunk: a size, length, count or offset field made huge (which lifts the
    // bound of whatever loop it controls) together with every table value of every other field of
    // that chunk (which may keep that loop from making progress)
    let chunk_of = |n: &str| n.split('.').next().unwrap_or("").to_string();
    for f1 in &enc.fields {
        let sizey = ["size", "len", "number", "delete", "offset"].iter().any(|k| f1.name.contains(k));
        if !sizey || f1.width < 2 {
            continue;
        }
        let large = if f1.width >= 4 { 0x7FFF_FFFFu64 } else { 0x7FFF };
        for f2 in &enc.fields {
            if f2.off == f1.off || chunk_of(&f1.name) != chunk_of(&f2.name) {
                continue;
            }
            let orig = damage::read_field(&enc.bytes, f2);
            for v in damage::field_values(orig, f2.width) {
                push(
                    C17Doc::Patch {
                        base: small.clone(),
                        damage: vec![
                            (0, Damage::Field { name: f1.name.clone(), off: f1.off, width: f1.width, be: f1.be, value: large }),
                            (0, Damage::Field { name: f2.name.clone(), off: f2.off, width: f2.width, be: f2.be, value: v }),
                        ],
                        missing: None,
                        obstruct: vec![],
                    },
                    &mut out,
                );
            }
        }
    }
    // three fields of one file-block header damaged consistently: the block claims a large
    // deflate stream and the largest expansion such a stream can have, while its header size says
    // that (nearly) all of the padded block is header, so that almost nothing of the stream has
    // to be present. Memory has to follow the bytes that are there, not the claim.
    for hs in enc.fields.iter().filter(|f| f.name.ends_with("fblock.header_size")) {
        let pre = &hs.name[..hs.name.len() - "header_size".len()];
        let find = |n: &str| enc.fields.iter().find(|f| f.off > hs.off && f.off <= hs.off + 12 && f.name == format!("{}{}", pre, n));
        let (Some(sl), Some(rl)) = (find("stored_len"), find("raw_len")) else { continue };
        for stored in [31_999u64, 16_000, 4_000] {
            let padded = (stored + 143) & !127;
            for raw in [stored * 1032, stored * 1000, 30_000_000u64.min(stored * 1032)] {
                for left in [0u64, 1, 2, 5, 16, 112, 128] {
                    let fld = |f: &Field, v: u64| (0usize, Damage::Field { name: f.name.clone(), off: f.off, width: f.width, be: f.be, value: v });
                    push(
                        C17Doc::Patch {
                            base: small.clone(),
                            damage: vec![fld(hs, padded - left), fld(sl, stored), fld(rl, raw)],
                            missing: None,
                            obstruct: vec![],
                        },
                        &mut out,
                    );
                }
            }
        }
    }
    push(C17Doc::Patch { base: small.clone(), damage: vec![], missing: None, obstruct: vec!["mk/a".into()] }, &mut out);
    push(C17Doc::Patch { base: small.clone(), damage: vec![], missing: None, obstruct: vec!["mk".into()] }, &mut out);
    push(C17Doc::Patch { base: small.clone(), damage: vec![], missing: None, obstruct: vec!["boot".into()] }, &mut out);
    let mut no_t = small.clone();
    no_t.patches[0].retain(|c| !matches!(c, Chunk::Target { .. }));
    push(C17Doc::Patch { base: no_t, damage: vec![], missing: None, obstruct: vec![] }, &mut out);
    push(C17Doc::Patch { base: small.clone(), damage: vec![], missing: Some((0, false)), obstruct: vec![] }, &mut out);
    push(C17Doc::Patch { base: small.clone(), damage: vec![], missing: Some((0, true)), obstruct: vec![] }, &mut out);
    // a sticky ENOSPC on the first target write, an unwritable target, an unremovable file
    for (call, nth, kind, sticky) in [
        (Call::Write, 0u32, Hostile::Enospc, true),
        (Call::Write, 0, Hostile::WriteZero, true),
        (Call::Write, 2, Hostile::WriteZero, true),
        (Call::Write, 1, Hostile::WriteZero, false),
        (Call::Open, 1, Hostile::Eacces, false),
        (Call::Open, 5, Hostile::Eacces, false),
        (Call::RemoveFile, 0, Hostile::Eacces, false),
        (Call::CreateDirAll, 0, Hostile::Erofs, false),
        (Call::SetLen, 0, Hostile::Eio, false),
        (Call::Read, 300, Hostile::Eio, false),
        (Call::Read, 700, Hostile::EarlyEof, false),
        (Call::RemoveDirAll, 0, Hostile::Eacces, false),
    ] {
        let mut d = Doc {
            prop: "C17".into(),
            seed: 0xD1EC7ED0 + idx,
            cfg: Cfg::Hostile,
            benign: Benign::quiet(),
            io_faults: vec![IoFault { op: 0, call, nth, kind, sticky, path_contains: None }],
            body: Body::C17(C17Doc::Patch { base: small.clone(), damage: vec![], missing: None, obstruct: vec![] }),
        };
        if call == Call::RemoveDirAll {
            if let Body::C17(C17Doc::Patch { base, .. }) = &mut d.body {
                base.pre_dirs.push("sqpack/ex2".into());
                base.pre.push(super::c04::FileEnt { path: "sqpack/ex2/x.dat".into(), data: Bytes::Fill { len: 10, fill: 1 } });
            }
        }
        out.push(d);
        idx += 1;
    }
    out
}

fn shape_hash(b: &C17Doc) -> u64 {
    let s = serde_json::to_string(b).unwrap_or_default();
    fnv1a(FNV_INIT, s.as_bytes())
}

fn utf16be(s: &str) -> Vec<u8> {
    s.encode_utf16().flat_map(|u| u.to_be_bytes()).collect()
}

/// Calls the entry point of `format`; returns whether it produced a value ("parsed past the
/// magic / size check") — used for probes only.
fn parse_buffer(format: &str, bytes: &[u8]) -> bool {
    use physis::patchlist::{PatchList, PatchListType};
    match format {
        "cfg" => physis::cfg::ConfigFile::from_existing(bytes).map(|c| !c.categories.is_empty()).unwrap_or(false),
        "exl" => physis::exl::EXL::from_existing(bytes).map(|e| !e.entries.is_empty() || e.version != 0).unwrap_or(false),
        "fiin" => physis::fiin::FileInfo::from_existing(bytes).is_some(),
        "chardat" => physis::chardat::CharacterData::from_existing(bytes).is_some(),
        "gearsets" => physis::gearsets::GearSets::from_existing(bytes).is_some(),
        "log" => physis::log::ChatLog::from_existing(bytes).map(|l| !l.entries.is_empty()).unwrap_or(false),
        "patchlist_boot" | "patchlist_game" => {
            let text = String::from_utf8_lossy(bytes).to_string();
            let game = format == "patchlist_game";
            let ty = || if game { PatchListType::Game } else { PatchListType::Boot };
            let list = PatchList::from_string(ty(), &text);
            let n = list.patches.len();
            let _ = list.to_string(ty());
            n > 0
        }
        _ => panic!("HARNESS: unknown buffer format {}", format),
    }
}

pub fn run(doc: &Doc, body: &C17Doc, trace: bool) -> RunResult {
    let mut h = Harness::new("C17", doc.seed, PROBES.len(), trace);
    match body {
        C17Doc::Patch { base, damage, missing, obstruct } => {
            h.probe(0);
            // an obstruction is an ordinary pre-existing file, known to the reference model too
            let original = base;
            let mut with_obstruction = base.clone();
            for o in obstruct {
                if !with_obstruction.pre.iter().any(|e| e.path == *o) && !with_obstruction.pre_dirs.contains(o) {
                    with_obstruction.pre.push(super::c04::FileEnt { path: o.clone(), data: Bytes::Hex(hex(b"in the way")) });
                    h.at_rest[8] += 1;
                    h.probe(30);
                }
            }
            let base = &with_obstruction;
            c03::install_pre(&h, base);
            // store the patches, then damage them at rest
            let mut intact = vec![true; base.patches.len()];
            for (pi, chunks) in base.patches.iter().enumerate() {
                let enc = encode_patch(chunks);
                let mut bytes = enc.bytes.clone();
                for (di, d) in damage.iter().filter(|(p, _)| *p == pi) {
                    let _ = di;
                    let before = bytes.clone();
                    d.apply(&mut bytes);
                    h.at_rest[d.kind_index()] += 1;
                    match d {
                        Damage::Truncate { at } => {
                            h.probe(2);
                            if enc.boundaries.contains(at) {
                                h.probe(3);
                            }
                        }
                        Damage::Field { .. } => {
                            h.probe(4);
                            intact[pi] = false;
                        }
                        _ => {
                            if bytes != before {
                                intact[pi] = false;
                            }
                        }
                    }
                }
                if !chunks.iter().any(|c| matches!(c, Chunk::Target { .. }))
                    && chunks.iter().any(|c| matches!(c, Chunk::AddData { .. } | Chunk::DeleteData { .. } | Chunk::ExpandData { .. } | Chunk::HeaderUpdate { .. }))
                {
                    h.probe(6);
                    intact[pi] = false;
                }
                if !c03::well_formed(&C03Doc { patches: vec![chunks.clone()], ..original.clone() }) {
                    // shrinking may leave the constrained space: no functional demand then
                    intact[pi] = false;
                }
                let ppath = format!("{}/p{}.patch", c03::PATCHES, pi);
                match missing {
                    Some((mp, as_dir)) if *mp == pi => {
                        h.probe(5);
                        h.at_rest[if *as_dir { 7 } else { 6 }] += 1;
                        if *as_dir {
                            h.fs.h_mkdirs(&ppath);
                        } else {
                            // never stored; run_patches must not create it
                            h.fs.h_write(&ppath, bytes);
                            h.fs.h_remove(&ppath);
                            continue;
                        }
                    }
                    _ => h.fs.h_write(&ppath, bytes),
                }
            }
            // any earlier damaged patch makes the reference state of later ones undefined
            for i in 1..intact.len() {
                if !intact[i - 1] {
                    intact[i] = false;
                }
            }
            h.set_policy(&doc.benign, &doc.io_faults);
            let hostile_before = h.fs.stats(|s| s.hostile_fired.iter().sum::<u64>());
            let pr = run_patches_c17(&mut h, base, &intact, missing);
            let fired: Vec<u64> = h.fs.stats(|s| s.fired.iter().map(|r| r[6]).collect());
            let hostile_after = h.fs.stats(|s| s.hostile_fired.iter().sum::<u64>());
            let under_fault = hostile_after > hostile_before || !damage.is_empty() || missing.is_some() || !obstruct.is_empty();
            if hostile_after > hostile_before {
                h.probe(1);
            }
            if under_fault && pr.0 {
                h.probe(7);
            }
            if under_fault && !pr.0 {
                h.probe(8);
            }
            if fired[Call::Read.idx()] > 0 {
                h.probe(9);
            }
            if fired[Call::Write.idx()] + fired[Call::SetLen.idx()] > 0 {
                h.probe(10);
            }
            if fired[Call::Open.idx()] > 0 {
                h.probe(11);
            }
            if fired[Call::CreateDirAll.idx()] + fired[Call::RemoveFile.idx()] + fired[Call::RemoveDirAll.idx()] > 0 {
                h.probe(12);
            }
            if doc.io_faults.iter().any(|f| f.sticky) {
                h.probe(28);
            }
            let kinds: u64 = base.patches.iter().flatten().map(|c| 1u64 << (fnv1a(FNV_INIT, c.kind_name().as_bytes()) % 60)).fold(0, |a, b| a | b);
            h.state(&[0, pr.0 as u64, (hostile_after > hostile_before) as u64, damage.first().map(|d| d.1.kind_index() as u64 + 1).unwrap_or(0), kinds % 97]);
        }
        C17Doc::Boot { dir_exists, ver } => {
            h.probe(13);
            if *dir_exists {
                h.fs.h_mkdirs("/w/boot");
                if let Some(v) = ver {
                    h.fs.h_write("/w/boot/ffxivboot.ver", v.get());
                }
            }
            h.set_policy(&doc.benign, &doc.io_faults);
            let r = h.op(0, "BootData::from_existing", 64, || BootData::from_existing("/w/boot").map(|b| b.version)).done();
            h.log(&format!("boot -> {:?}", r));
            h.state(&[1, *dir_exists as u64, ver.is_some() as u64, r.flatten().is_some() as u64]);
        }
        C17Doc::Launcher { prefix, url_kind, url, terminated, suffix, missing, damage } => {
            h.probe(14);
            let mut b = fill_bytes(*prefix, 0x1234 ^ doc.seed << 2);
            // keep the filler free of accidental needles
            for x in b.iter_mut() {
                if *x == 0 {
                    *x = 1;
                }
            }
            let needle = match url_kind {
                0 => "https://launcher.finalfantasyxiv.com",
                1 => "https://frontier.ffxiv.com",
                _ => "",
            };
            if !needle.is_empty() {
                b.extend_from_slice(&utf16be(&format!("{}{}", needle, url)));
                if *terminated {
                    b.extend_from_slice(&[0, 0]);
                }
            }
            let mut tail = fill_bytes(*suffix, 0x99 ^ doc.seed << 2);
            for x in tail.iter_mut() {
                if *x == 0 {
                    *x = 2;
                }
            }
            b.extend_from_slice(&tail);
            for d in damage {
                d.apply(&mut b);
                h.at_rest[d.kind_index()] += 1;
            }
            let n = b.len() as u64;
            if !*missing {
                h.fs.h_write("/w/launcher/ffxivlauncher.exe", b);
            } else {
                h.at_rest[6] += 1;
            }
            h.set_policy(&doc.benign, &doc.io_faults);
            let r = h
                .op(0, "execlookup::extract_frontier_url", n, || physis::execlookup::extract_frontier_url("/w/launcher/ffxivlauncher.exe"))
                .done();
            if let Some(Some(_)) = &r {
                h.probe(15);
            }
            h.log(&format!("launcher -> {:?}", r));
            h.state(&[2, *url_kind as u64, *terminated as u64, *missing as u64, damage.first().map(|d| d.kind_index() as u64 + 1).unwrap_or(0)]);
        }
        C17Doc::Buffer { format, base, damage } => {
            let mut bytes = base_bytes(base);
            for d in damage {
                d.apply(&mut bytes);
                h.at_rest[d.kind_index()] += 1;
                match d {
                    Damage::Truncate { .. } => h.probe(24),
                    Damage::Field { .. } => h.probe(25),
                    _ => h.probe(26),
                }
            }
            // the object is a file at rest on the simulated disk; the caller reads it whole
            h.fs.h_write("/w/user/object.dat", bytes);
            let bytes = h.fs.h_read("/w/user/object.dat").unwrap();
            let n = bytes.len() as u64;
            let fi = FORMATS.iter().position(|f| f == format).expect("HARNESS: format");
            let entry: &'static str = [
                "ConfigFile::from_existing",
                "EXL::from_existing",
                "FileInfo::from_existing",
                "CharacterData::from_existing",
                "GearSets::from_existing",
                "ChatLog::from_existing",
                "PatchList::from_string(Boot)+to_string",
                "PatchList::from_string(Game)+to_string",
            ][fi];
            let r = h.op(0, entry, n, || parse_buffer(format, &bytes)).done();
            if r == Some(true) {
                h.probe(16 + fi);
                if damage.is_empty() {
                    h.probe(27);
                }
            }
            h.log(&format!("{} -> {:?}", entry, r));
            h.state(&[3, fi as u64, r.map(|x| x as u64 + 1).unwrap_or(0), damage.first().map(|d| d.kind_index() as u64 + 1).unwrap_or(0)]);
        }
    }
    if doc.seed >= 0xD1EC7ED0 {
        h.probe(29);
    }
    h.finish(doc.cfg, shape_hash(body))
}

/// Returns (every patch reported Ok,).
fn run_patches_c17(h: &mut Harness, base: &C03Doc, intact: &[bool], missing: &Option<(usize, bool)>) -> (bool,) {
    let _ = missing;
    h.mute_probes = true; // run_patches counts C03's probes
    let pr = c03::run_patches_opts(h, base, false, intact, true);
    h.mute_probes = false;
    (pr.all_ok && pr.applied == base.patches.len(),)
}

pub fn shrink(b: &C17Doc) -> Vec<C17Doc> {
    let mut out = vec![];
    match b {
        C17Doc::Patch { base, damage, missing, obstruct } => {
            for i in 0..obstruct.len() {
                let mut o = obstruct.clone();
                o.remove(i);
                out.push(C17Doc::Patch { base: base.clone(), damage: damage.clone(), missing: missing.clone(), obstruct: o });
            }
            for i in 0..damage.len() {
                let mut d = damage.clone();
                d.remove(i);
                out.push(C17Doc::Patch { base: base.clone(), damage: d, missing: missing.clone(), obstruct: obstruct.clone() });
            }
            // structural shrinking of the patch invalidates byte offsets of stored damage, so it
            // is only tried when no at-rest damage is present
            if damage.is_empty() {
                for nb in c03::shrink(base) {
                    if missing.map(|(p, _)| p >= nb.patches.len()).unwrap_or(false) {
                        continue;
                    }
                    out.push(C17Doc::Patch { base: nb, damage: vec![], missing: missing.clone(), obstruct: obstruct.clone() });
                }
            } else {
                // pre-existing tree only
                for i in 0..base.pre.len() {
                    let mut nb = base.clone();
                    nb.pre.remove(i);
                    out.push(C17Doc::Patch { base: nb, damage: damage.clone(), missing: missing.clone(), obstruct: obstruct.clone() });
                }
                if base.via != Via::Direct {
                    let mut nb = base.clone();
                    nb.via = Via::Direct;
                    out.push(C17Doc::Patch { base: nb, damage: damage.clone(), missing: missing.clone(), obstruct: obstruct.clone() });
                }
            }
        }
        C17Doc::Buffer { format, base, damage } => {
            for i in 0..damage.len() {
                let mut d = damage.clone();
                d.remove(i);
                out.push(C17Doc::Buffer { format: format.clone(), base: base.clone(), damage: d });
            }
            if let BaseRef::Built { format: f, seed } = base {
                for s in [1u64, 2, 3] {
                    if *seed != s {
                        out.push(C17Doc::Buffer { format: format.clone(), base: BaseRef::Built { format: f.clone(), seed: s }, damage: damage.clone() });
                    }
                }
            }
        }
        C17Doc::Launcher { prefix, url_kind, url, terminated, suffix, missing, damage } => {
            for i in 0..damage.len() {
                let mut d = damage.clone();
                d.remove(i);
                out.push(C17Doc::Launcher { prefix: *prefix, url_kind: *url_kind, url: url.clone(), terminated: *terminated, suffix: *suffix, missing: *missing, damage: d });
            }
            if damage.is_empty() {
                if *prefix > 0 {
                    out.push(C17Doc::Launcher { prefix: 0, url_kind: *url_kind, url: url.clone(), terminated: *terminated, suffix: *suffix, missing: *missing, damage: vec![] });
                }
                if *suffix > 0 {
                    out.push(C17Doc::Launcher { prefix: *prefix, url_kind: *url_kind, url: url.clone(), terminated: *terminated, suffix: 0, missing: *missing, damage: vec![] });
                }
                if url.len() > 1 {
                    out.push(C17Doc::Launcher { prefix: *prefix, url_kind: *url_kind, url: url[..1].to_string(), terminated: *terminated, suffix: *suffix, missing: *missing, damage: vec![] });
                }
            }
        }
        C17Doc::Boot { .. } => {}
    }
    out
}
