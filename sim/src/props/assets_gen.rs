//! Builders of small, valid byte buffers for the asset formats parsed by the library under test.
//! No dependencies other than std. Every builder is deterministic in `seed`.
#![allow(dead_code)]

pub struct Field {
    pub name: String,
    pub off: usize,
    pub width: usize,
    pub be: bool,
}

pub const FORMATS: &[&str] = &[
    "tex", "exh", "exd", "pbd", "cmp", "tera", "stm", "dic", "shpk", "mtrl", "sklb", "avfx", "lgb",
    "db", "uld", "sgb", "scd", "hwc", "iwc", "tmb", "skp", "schd", "phyb", "pap", "mdl",
];

pub const MDL_SAMPLE: &str = "/repo/resources/tests/c0201e0038_top_zeroed.mdl";

/// Valid object bytes for `format`.
pub fn build(format: &str, seed: u64) -> Vec<u8> {
    make(format, seed).b
}

/// Named header fields of the object built by `build(format, seed)`.
pub fn fields(format: &str, seed: u64) -> Vec<Field> {
    make(format, seed).f
}

/// For "exd": the matching EXH bytes.
pub fn companion(format: &str, seed: u64) -> Option<Vec<u8>> {
    if format == "exd" {
        Some(exh(seed).b)
    } else {
        None
    }
}

fn make(format: &str, seed: u64) -> W {
    match format {
        "tex" => tex(seed),
        "exh" => exh(seed),
        "exd" => exd(seed),
        "pbd" => pbd(seed),
        "cmp" => cmp(seed),
        "tera" => tera(seed),
        "stm" => stm(seed),
        "dic" => dic(seed),
        "shpk" => shpk(seed),
        "mtrl" => mtrl(seed),
        "sklb" => sklb(seed),
        "avfx" => avfx(seed),
        "lgb" => lgb(seed),
        "db" => db(seed),
        "uld" => uld(seed),
        "sgb" => sgb(seed),
        "scd" => scd(seed),
        "hwc" => hwc(seed),
        "iwc" => iwc(seed),
        "tmb" => tmb(seed),
        "skp" => skp(seed),
        "schd" => schd(seed),
        "phyb" => phyb(seed),
        "pap" => pap(seed),
        "mdl" => mdl(seed),
        _ => panic!("assets: unknown format {format}"),
    }
}

// ---------------------------------------------------------------------------------------------
// helpers

/// Tiny xorshift64 generator.
struct Rng(u64);

impl Rng {
    fn new(seed: u64, salt: u64) -> Rng {
        let mut r = Rng(seed.wrapping_mul(0x9E37_79B9_7F4A_7C15) ^ salt.wrapping_mul(0xD1B5_4A32_D192_ED03) | 1);
        for _ in 0..4 {
            r.next();
        }
        r
    }
    fn next(&mut self) -> u64 {
        let mut x = self.0;
        x ^= x << 13;
        x ^= x >> 7;
        x ^= x << 17;
        self.0 = x;
        x
    }
    /// Inclusive range.
    fn range(&mut self, lo: usize, hi: usize) -> usize {
        lo + (self.next() % ((hi - lo + 1) as u64)) as usize
    }
    fn u32(&mut self) -> u32 {
        (self.next() >> 16) as u32
    }
    fn u16(&mut self) -> u16 {
        (self.next() >> 24) as u16
    }
    fn u8(&mut self) -> u8 {
        (self.next() >> 32) as u8
    }
    /// A small, finite float.
    fn f32(&mut self) -> f32 {
        (self.next() % 2001) as f32 / 100.0 - 10.0
    }
    fn word(&mut self, min: usize, max: usize) -> String {
        let n = self.range(min, max);
        (0..n).map(|_| (b'a' + (self.next() % 26) as u8) as char).collect()
    }
}

/// Byte writer which also records the named fields.
struct W {
    b: Vec<u8>,
    f: Vec<Field>,
    be: bool,
    /// While set, fields are written but not recorded (keeps the field lists short).
    quiet: bool,
}

impl W {
    fn new(be: bool) -> W {
        W { b: Vec::new(), f: Vec::new(), be, quiet: false }
    }
    fn pos(&self) -> usize {
        self.b.len()
    }
    /// Record a field of `width` bytes at `off`.
    fn mark_at(&mut self, name: &str, off: usize, width: usize) {
        if self.quiet {
            return;
        }
        self.f.push(Field { name: name.to_string(), off, width, be: self.be });
    }
    /// Record a field of `width` bytes at the current position.
    fn mark(&mut self, name: &str, width: usize) {
        let off = self.pos();
        self.mark_at(name, off, width);
    }
    fn u8(&mut self, v: u8) {
        self.b.push(v);
    }
    fn u16(&mut self, v: u16) {
        let x = if self.be { v.to_be_bytes() } else { v.to_le_bytes() };
        self.b.extend_from_slice(&x);
    }
    fn u32(&mut self, v: u32) {
        let x = if self.be { v.to_be_bytes() } else { v.to_le_bytes() };
        self.b.extend_from_slice(&x);
    }
    fn u64(&mut self, v: u64) {
        let x = if self.be { v.to_be_bytes() } else { v.to_le_bytes() };
        self.b.extend_from_slice(&x);
    }
    fn i16(&mut self, v: i16) {
        self.u16(v as u16);
    }
    fn i32(&mut self, v: i32) {
        self.u32(v as u32);
    }
    fn f32(&mut self, v: f32) {
        self.u32(v.to_bits());
    }
    fn bytes(&mut self, v: &[u8]) {
        self.b.extend_from_slice(v);
    }
    /// NUL-terminated string.
    fn cstr(&mut self, s: &str) {
        self.b.extend_from_slice(s.as_bytes());
        self.b.push(0);
    }
    fn zeros(&mut self, n: usize) {
        self.b.resize(self.b.len() + n, 0);
    }
    fn pad_to(&mut self, len: usize) {
        if self.b.len() < len {
            self.b.resize(len, 0);
        }
    }
    fn align(&mut self, a: usize) {
        while self.b.len() % a != 0 {
            self.b.push(0);
        }
    }
    // named variants: record and write
    fn n8(&mut self, name: &str, v: u8) {
        self.mark(name, 1);
        self.u8(v);
    }
    fn n16(&mut self, name: &str, v: u16) {
        self.mark(name, 2);
        self.u16(v);
    }
    fn n32(&mut self, name: &str, v: u32) {
        self.mark(name, 4);
        self.u32(v);
    }
    fn n64(&mut self, name: &str, v: u64) {
        self.mark(name, 8);
        self.u64(v);
    }
    // patching
    fn set16(&mut self, off: usize, v: u16) {
        let x = if self.be { v.to_be_bytes() } else { v.to_le_bytes() };
        self.b[off..off + 2].copy_from_slice(&x);
    }
    fn set32(&mut self, off: usize, v: u32) {
        let x = if self.be { v.to_be_bytes() } else { v.to_le_bytes() };
        self.b[off..off + 4].copy_from_slice(&x);
    }
}

// ---------------------------------------------------------------------------------------------
// header-only formats

fn uld(seed: u64) -> W {
    let mut r = Rng::new(seed, 1);
    let mut w = W::new(false);
    w.mark("identifier", 4);
    w.bytes(b"uldh");
    w.mark("version", 4);
    w.bytes(b"0100");
    w.n32("component_offset", 16);
    w.n32("widget_offset", 16 + 16);
    // two dummy chunk headers so that the offsets point at something
    for tag in [b"atkh", b"wdhd"] {
        w.bytes(tag);
        w.bytes(b"0100");
        w.u32(r.range(0, 4) as u32);
        w.u32(0);
    }
    w
}

fn sgb(seed: u64) -> W {
    let mut r = Rng::new(seed, 2);
    let mut w = W::new(false);
    w.mark("identifier", 4);
    w.bytes(b"SGB1");
    let extra = r.range(1, 4) * 8;
    w.n32("file_size", (12 + 8 + extra) as u32);
    w.n32("total_chunk_count", 1);
    w.mark("chunk_id", 4);
    w.bytes(b"SCN1");
    w.n32("chunk_size", extra as u32);
    for _ in 0..extra {
        w.u8(r.u8());
    }
    w
}

fn scd(seed: u64) -> W {
    let mut r = Rng::new(seed, 3);
    let mut w = W::new(false);
    w.mark("file_type", 4);
    w.bytes(b"SEDB");
    w.mark("sub_type", 4);
    w.bytes(b"SSCF");
    w.n32("version", 3);
    w.n32("endian_type", 0);
    w.n8("alignment_bits", 4);
    w.n16("offset", 0x30);
    w.n64("datetime", r.next());
    w.zeros(4);
    w.n16("sound_count", r.range(1, 3) as u16);
    w.n16("track_count", r.range(1, 3) as u16);
    w.n16("audio_count", r.range(1, 3) as u16);
    w.n16("number", r.u16());
    w.n32("track_offset", 0x40);
    w.n32("audio_offset", 0x44);
    w.n32("layout_offset", 0x48);
    w.n32("routing_offset", 0x4C);
    w.n32("attribute_offset", 0x50);
    w.n16("end_of_file_padding_size", 0);
    w.zeros(2);
    w.pad_to(0x60);
    w
}

fn hwc(seed: u64) -> W {
    let mut r = Rng::new(seed, 4);
    let mut w = W::new(false);
    for _ in 0..64 * 64 {
        w.u32(r.u32());
    }
    // there is no header: name a few pixels
    for (i, off) in [0usize, 4, 64 * 4, 64 * 64 * 2, 64 * 64 * 4 - 4].iter().enumerate() {
        w.mark_at(&format!("pixel[{i}]"), *off, 4);
    }
    w
}

fn iwc(seed: u64) -> W {
    let mut r = Rng::new(seed, 5);
    let mut w = W::new(false);
    let count = r.range(1, 4) as u16;
    w.n16("count", count);
    w.n16("part_mask", r.u16());
    for i in 0..count {
        w.n32(&format!("part[{i}]"), r.u32());
    }
    w
}

fn tmb(seed: u64) -> W {
    let mut r = Rng::new(seed, 6);
    let mut w = W::new(false);
    w.mark("magic", 4);
    w.bytes(b"TMLB");
    let n = r.range(1, 3);
    w.n32("size", (12 + n * 16) as u32);
    w.n32("entry_count", n as u32);
    for i in 0..n {
        w.mark(&format!("entry[{i}].tag"), 4);
        w.bytes(b"TMDH");
        w.n32(&format!("entry[{i}].size"), 16);
        w.u32(r.u32());
        w.u32(r.u32());
    }
    w
}

fn skp(seed: u64) -> W {
    let mut r = Rng::new(seed, 7);
    let mut w = W::new(false);
    w.mark("magic", 4);
    w.bytes(b"plks");
    w.mark("version", 4);
    w.bytes(if seed % 2 == 0 { b"0091" } else { b"0090" });
    w.n32("trailer[0]", r.u32());
    w.n32("trailer[1]", r.u32());
    w.n32("trailer[2]", r.u32());
    w
}

fn schd(seed: u64) -> W {
    let mut r = Rng::new(seed, 8);
    let mut w = W::new(false);
    w.mark("magic", 4);
    w.bytes(b"ShCd");
    w.mark("version", 3);
    w.bytes(b"100");
    w.n8("stage", (seed % 2) as u8);
    w.mark("dxc_magic", 4);
    w.bytes(b"DX11");
    let blob = r.range(4, 12) * 4;
    w.n32("file_length", (28 + blob) as u32);
    w.n32("shader_offset", 28);
    w.n32("parameter_offset", (28 + blob) as u32);
    for _ in 0..blob {
        w.u8(r.u8());
    }
    w
}

fn phyb(seed: u64) -> W {
    let mut r = Rng::new(seed, 9);
    let mut w = W::new(false);
    let versioned = seed % 2 == 1;
    w.mark("version", 4);
    w.bytes(&[if versioned { 1 } else { 0 }, 0, 0, 0]);
    let hdr = if versioned { 16 } else { 12 };
    if versioned {
        w.n32("data_type", r.range(0, 3) as u32);
    }
    w.n32("collision_offset", hdr);
    w.n32("simulator_offset", hdr + 8);
    w.n32("collision[0]", r.u32());
    w.n32("collision[1]", r.u32());
    w.n32("simulator[0]", r.u32());
    w
}

fn pap(seed: u64) -> W {
    let mut r = Rng::new(seed, 10);
    let mut w = W::new(false);
    w.mark("magic", 4);
    w.bytes(b"pap ");
    w.n32("version", 0x0002_0001);
    let n = r.range(1, 3);
    w.n16("num_animations", n as u16);
    w.n16("model_id", r.range(1, 900) as u16);
    w.n8("model_type", r.range(0, 3) as u8);
    w.n32("variant", r.range(0, 5) as u32);
    let info = 0x1A + 3; // header is 0x19 bytes here
    w.n32("info_offset", info as u32);
    let havok = info + n * 40;
    w.n32("havok_position", havok as u32);
    w.n32("footer_position", (havok + 16) as u32);
    w.pad_to(info);
    for i in 0..n {
        let name = format!("cbbm_anim{i}");
        let p = w.pos();
        w.bytes(name.as_bytes());
        w.pad_to(p + 32);
        w.n16(&format!("anim[{i}].unknown"), r.u16());
        w.n16(&format!("anim[{i}].index"), i as u16);
        w.u32(0);
    }
    w.zeros(16 + 8);
    w
}

fn mdl(_seed: u64) -> W {
    let mut w = W::new(false);
    w.b = std::fs::read(MDL_SAMPLE).expect("mdl sample file");
    let rd16 = |b: &Vec<u8>, o: usize| u16::from_le_bytes([b[o], b[o + 1]]) as usize;
    let rd32 = |b: &Vec<u8>, o: usize| u32::from_le_bytes([b[o], b[o + 1], b[o + 2], b[o + 3]]) as usize;
    w.mark_at("version", 0, 4);
    w.mark_at("stack_size", 4, 4);
    w.mark_at("runtime_size", 8, 4);
    w.mark_at("vertex_declaration_count", 12, 2);
    w.mark_at("material_count", 14, 2);
    for i in 0..3 {
        w.mark_at(&format!("vertex_offsets[{i}]"), 16 + 4 * i, 4);
        w.mark_at(&format!("index_offsets[{i}]"), 28 + 4 * i, 4);
        w.mark_at(&format!("vertex_buffer_size[{i}]"), 40 + 4 * i, 4);
        w.mark_at(&format!("index_buffer_size[{i}]"), 52 + 4 * i, 4);
    }
    w.mark_at("lod_count", 64, 1);
    // vertex elements are 8 bytes: stream, offset, type, usage, usage index, 3 unused
    for e in 0..17 {
        let o = 0x44 + 8 * e;
        if w.b[o] == 0xFF {
            w.mark_at(&format!("decl[0].elem[{e}].end_marker"), o, 1);
            break;
        }
        w.mark_at(&format!("decl[0].elem[{e}].stream"), o, 1);
        w.mark_at(&format!("decl[0].elem[{e}].offset"), o + 1, 1);
        w.mark_at(&format!("decl[0].elem[{e}].vertex_type"), o + 2, 1);
        w.mark_at(&format!("decl[0].elem[{e}].vertex_usage"), o + 3, 1);
        w.mark_at(&format!("decl[0].elem[{e}].usage_index"), o + 4, 1);
    }
    let base = 0x44 + rd16(&w.b, 12) * 17 * 8;
    w.mark_at("string_count", base, 2);
    w.mark_at("string_size", base + 4, 4);
    let s = base + 8 + rd32(&w.b, base + 4);
    let names = [
        "mesh_count", "attribute_count", "submesh_count", "header.material_count", "bone_count",
        "bone_table_count", "shape_count", "shape_mesh_count", "shape_value_count",
    ];
    for (i, n) in names.iter().enumerate() {
        w.mark_at(n, s + 4 + 2 * i, 2);
    }
    w.mark_at("header.lod_count", s + 22, 1);
    w.mark_at("flags1", s + 23, 1);
    w.mark_at("element_id_count", s + 24, 2);
    w.mark_at("terrain_shadow_mesh_count", s + 26, 1);
    w.mark_at("flags2", s + 27, 1);
    w.mark_at("terrain_shadow_submesh_count", s + 38, 2);
    // the tables behind the model header, in file order (layout: src/model.rs ModelData)
    let cnt = |i: usize| rd16(&w.b, s + 4 + 2 * i);
    let (mesh_count, attribute_count, submesh_count, material_count, bone_count, bone_table_count, shape_count, shape_mesh_count, shape_value_count) =
        (cnt(0), cnt(1), cnt(2), cnt(3), cnt(4), cnt(5), cnt(6), cnt(7), cnt(8));
    let element_ids = rd16(&w.b, s + 24);
    let ts_meshes = w.b[s + 26] as usize;
    let ts_submeshes = rd16(&w.b, s + 38);
    let mut o = s + 56 + 32 * element_ids;
    for i in 0..3 {
        let l = o + 60 * i;
        w.mark_at(&format!("lods[{i}].mesh_index"), l, 2);
        w.mark_at(&format!("lods[{i}].mesh_count"), l + 2, 2);
        w.mark_at(&format!("lods[{i}].vertex_buffer_size"), l + 44, 4);
        w.mark_at(&format!("lods[{i}].index_buffer_size"), l + 48, 4);
        w.mark_at(&format!("lods[{i}].vertex_data_offset"), l + 52, 4);
        w.mark_at(&format!("lods[{i}].index_data_offset"), l + 56, 4);
    }
    o += 180;
    for j in 0..mesh_count.min(3) {
        // the first two meshes and the last one
        let j = if j == 2 { mesh_count - 1 } else { j };
        let m = o + 36 * j;
        w.mark_at(&format!("meshes[{j}].vertex_count"), m, 2);
        w.mark_at(&format!("meshes[{j}].index_count"), m + 4, 4);
        w.mark_at(&format!("meshes[{j}].material_index"), m + 8, 2);
        w.mark_at(&format!("meshes[{j}].submesh_index"), m + 10, 2);
        w.mark_at(&format!("meshes[{j}].submesh_count"), m + 12, 2);
        w.mark_at(&format!("meshes[{j}].bone_table_index"), m + 14, 2);
        w.mark_at(&format!("meshes[{j}].start_index"), m + 16, 4);
        for k in 0..3 {
            w.mark_at(&format!("meshes[{j}].vertex_buffer_offsets[{k}]"), m + 20 + 4 * k, 4);
            w.mark_at(&format!("meshes[{j}].vertex_buffer_strides[{k}]"), m + 32 + k, 1);
        }
        w.mark_at(&format!("meshes[{j}].vertex_stream_count"), m + 35, 1);
    }
    o += 36 * mesh_count + 4 * attribute_count + 20 * ts_meshes;
    if submesh_count > 0 {
        w.mark_at("submeshes[0].index_offset", o, 4);
        w.mark_at("submeshes[0].index_count", o + 4, 4);
        w.mark_at("submeshes[0].bone_start_index", o + 12, 2);
        w.mark_at("submeshes[0].bone_count", o + 14, 2);
    }
    o += 16 * submesh_count + 12 * ts_submeshes;
    if material_count > 0 {
        w.mark_at("material_name_offsets[0]", o, 4);
        w.mark_at(&format!("material_name_offsets[{}]", material_count - 1), o + 4 * (material_count - 1), 4);
    }
    o += 4 * material_count;
    if bone_count > 0 {
        w.mark_at("bone_name_offsets[0]", o, 4);
        w.mark_at(&format!("bone_name_offsets[{}]", bone_count - 1), o + 4 * (bone_count - 1), 4);
    }
    o += 4 * bone_count;
    if rd32(&w.b, 0) <= 0x0100_0005 {
        if bone_table_count > 0 {
            w.mark_at("bone_tables[0].bone_count", o + 128, 1);
        }
        o += 132 * bone_table_count;
        if shape_count > 0 {
            w.mark_at("shapes[0].string_offset", o, 4);
            for k in 0..3 {
                w.mark_at(&format!("shapes[0].shape_mesh_start_index[{k}]"), o + 4 + 2 * k, 2);
                w.mark_at(&format!("shapes[0].shape_mesh_count[{k}]"), o + 10 + 2 * k, 2);
            }
        }
        o += 16 * shape_count;
        if shape_mesh_count > 0 {
            w.mark_at("shape_meshes[0].mesh_index_offset", o, 4);
            w.mark_at("shape_meshes[0].shape_value_count", o + 4, 4);
            w.mark_at("shape_meshes[0].shape_value_offset", o + 8, 4);
        }
        o += 12 * shape_mesh_count;
        if shape_value_count > 0 {
            w.mark_at("shape_values[0].base_indices_index", o, 2);
            w.mark_at("shape_values[0].replacing_vertex_index", o + 2, 2);
        }
        o += 4 * shape_value_count;
        w.mark_at("submesh_bone_map_size", o, 4);
        let map = rd32(&w.b, o);
        o += 4 + map;
        w.mark_at("padding_amount", o, 1);
    }
    let len = w.b.len();
    w.f.retain(|f| f.off + f.width <= len);
    w
}

// ---------------------------------------------------------------------------------------------
// tex

fn tex(seed: u64) -> W {
    let mut r = Rng::new(seed, 11);
    let mut w = W::new(false);
    let formats = [0x1440u32, 0x1450, 0x3420, 0x3431, 0x6230];
    let format = formats[(seed % 5) as usize];
    // seeds 1..5: dimensions that are multiples of the 4 x 4 block; higher seeds: any dimensions
    // (block-compressed formats then end in partial blocks)
    let (width, height) = if seed <= 5 { (4 * r.range(1, 3), 4 * r.range(1, 3)) } else { (r.range(1, 14), r.range(1, 14)) };
    let depth = if format == 0x1450 { r.range(1, 2) } else { 1 };
    w.n32("attribute", if depth > 1 { 0x0100_0000 } else { 0x0080_0000 });
    w.n32("format", format);
    w.n16("width", width as u16);
    w.n16("height", height as u16);
    w.n16("depth", depth as u16);
    w.n16("mip_levels", 1);
    for i in 0..3 {
        w.n32(&format!("lod_offsets[{i}]"), 0);
    }
    w.n32("offset_to_surface[0]", 80);
    for _ in 1..13 {
        w.u32(0);
    }
    let size = match format {
        0x1440 => width * height * 2,
        0x1450 => width * height * depth * 4,
        0x3420 => width.div_ceil(4) * height.div_ceil(4) * 8,
        _ => width.div_ceil(4) * height.div_ceil(4) * 16,
    };
    for _ in 0..size {
        w.u8(r.u8());
    }
    w
}

// ---------------------------------------------------------------------------------------------
// exh / exd (a matching pair for every seed)

/// (type tag, offset in the fixed part of a row)
const EXCEL_COLUMNS: &[(u16, u16)] = &[
    (0x0, 0),   // String: u32 offset into the string area
    (0x7, 4),   // UInt32
    (0x4, 8),   // Int16
    (0x3, 10),  // UInt8
    (0x2, 11),  // Int8
    (0x9, 12),  // Float32
    (0xB, 16),  // UInt64
    (0x1, 24),  // Bool (the parser reads four bytes)
    (0x19, 28), // PackedBool0 (the parser reads four bytes)
    (0x1B, 28), // PackedBool2
    (0x6, 32),  // Int32
    (0xA, 36),  // Int64
    (0x5, 44),  // UInt16
    (0x0, 48),  // second String
];
const EXCEL_ROW_SIZE: u16 = 52;

struct ExcelShape {
    start_id: u32,
    rows: usize,
    subrows: usize, // 1 = plain rows
    columns: usize,
}

fn excel_shape(seed: u64) -> ExcelShape {
    let mut r = Rng::new(seed, 12);
    ExcelShape {
        start_id: r.range(0, 500) as u32,
        rows: r.range(2, 5),
        subrows: if seed % 2 == 0 { r.range(2, 3) } else { 1 },
        columns: r.range(9, EXCEL_COLUMNS.len()),
    }
}

/// Row ids stored in the "exd" object of this seed.
pub fn exd_row_ids(seed: u64) -> Vec<u32> {
    let s = excel_shape(seed);
    (0..s.rows as u32).map(|k| s.start_id + 2 * k).collect()
}

fn exh(seed: u64) -> W {
    let s = excel_shape(seed);
    let mut w = W::new(true);
    w.mark("magic", 4);
    w.bytes(b"EXHF");
    w.n16("version", 3);
    w.n16("data_offset", EXCEL_ROW_SIZE);
    w.n16("column_count", s.columns as u16);
    w.n16("page_count", 1);
    w.n16("language_count", 2);
    w.zeros(2);
    w.n8("variant", if s.subrows > 1 { 2 } else { 1 });
    w.zeros(3);
    w.n32("row_count", s.rows as u32);
    w.zeros(8);
    for (i, (ty, off)) in EXCEL_COLUMNS.iter().take(s.columns).enumerate() {
        w.n16(&format!("column[{i}].data_type"), *ty);
        w.n16(&format!("column[{i}].offset"), *off);
    }
    w.n32("page[0].start_id", s.start_id);
    w.n32("page[0].row_count", (2 * s.rows) as u32);
    w.n8("language[0]", 0);
    w.n8("language[1]", 2);
    w
}

fn exd(seed: u64) -> W {
    let s = excel_shape(seed);
    let ids = exd_row_ids(seed);
    let mut r = Rng::new(seed, 13);
    let mut w = W::new(true);
    w.mark("magic", 4);
    w.bytes(b"EXDF");
    w.n16("version", 2);
    w.zeros(2);
    w.n32("index_size", (s.rows * 8) as u32);
    w.n32("data_size", 0); // patched below
    w.zeros(16);
    let index = w.pos();
    for (k, id) in ids.iter().enumerate() {
        w.n32(&format!("row_id[{k}]"), *id);
        w.n32(&format!("row_offset[{k}]"), 0); // patched below
    }
    let data_start = w.pos();
    for k in 0..s.rows {
        let row_start = w.pos();
        w.set32(index + 8 * k + 4, row_start as u32);
        w.n32(&format!("row[{k}].data_size"), 0); // patched below
        w.n16(&format!("row[{k}].row_count"), s.subrows as u16);
        let header_offset = w.pos();
        // where the fixed part of each (sub)row starts
        let starts: Vec<usize> = (0..s.subrows)
            .map(|i| if s.subrows > 1 { header_offset + i * EXCEL_ROW_SIZE as usize + 2 * (i + 1) } else { header_offset })
            .collect();
        let fixed_end = starts[s.subrows - 1] + EXCEL_ROW_SIZE as usize;
        // string area after all fixed parts
        let mut strings: Vec<u8> = Vec::new();
        for (i, st) in starts.iter().enumerate() {
            if s.subrows > 1 {
                w.pad_to(*st - 2);
                w.u16(i as u16); // subrow id
            }
            w.pad_to(*st);
            let base = *st + EXCEL_ROW_SIZE as usize; // strings are relative to this
            let str_off = |strings: &mut Vec<u8>, text: String| -> u32 {
                let abs = fixed_end + strings.len();
                strings.extend_from_slice(text.as_bytes());
                strings.push(0);
                (abs - base) as u32
            };
            let o1 = str_off(&mut strings, r.word(1, 8));
            if k == 0 && i == 0 {
                w.mark("row[0].string_offset", 4);
            }
            w.u32(o1);
            w.u32(r.u32());
            w.i16(r.u16() as i16);
            w.u8(r.u8());
            w.u8(r.u8());
            w.f32(r.f32());
            w.u64(r.next());
            w.u32((r.next() % 2) as u32);
            w.u32(r.range(0, 7) as u32);
            w.i32(r.u32() as i32);
            w.u64(r.next());
            w.u16(r.u16());
            w.zeros(2);
            let o2 = str_off(&mut strings, r.word(0, 5));
            w.u32(o2);
        }
        w.bytes(&strings);
        w.align(4);
        let size = w.pos() - header_offset;
        w.set32(row_start, size as u32);
    }
    let total = w.pos() - data_start;
    w.set32(12, total as u32);
    w
}

// ---------------------------------------------------------------------------------------------
// pbd

/// Body ids of the deformers in the "pbd" object, root first; each one's parent is the previous.
pub fn pbd_body_ids(seed: u64) -> Vec<u16> {
    let mut r = Rng::new(seed, 14);
    let n = r.range(2, 4);
    (0..n).map(|k| 101 + 100 * k as u16 + (seed % 3) as u16 * 1000).collect()
}

fn pbd(seed: u64) -> W {
    let ids = pbd_body_ids(seed);
    let n = ids.len();
    let mut r = Rng::new(seed, 15);
    let mut w = W::new(false);
    w.n32("count", n as u32);
    let items = w.pos();
    for (k, id) in ids.iter().enumerate() {
        w.n16(&format!("item[{k}].body_id"), *id);
        w.n16(&format!("item[{k}].link_index"), k as u16);
        w.n32(&format!("item[{k}].data_offset"), 0); // patched below
        w.zeros(4);
    }
    for k in 0..n {
        w.n16(&format!("link[{k}].parent_index"), if k == 0 { 0xFFFF } else { (k - 1) as u16 });
        w.u16(if k + 1 < n { (k + 1) as u16 } else { 0xFFFF }); // first child
        // the lookup refuses a starting link whose sibling index is -1
        w.n16(&format!("link[{k}].next_sibling_index"), if k == 0 { 0xFFFF } else { 0 });
        w.n16(&format!("link[{k}].deformer_index"), k as u16);
    }
    for k in 0..n {
        w.align(4);
        let start = w.pos();
        w.set32(items + 12 * k + 4, start as u32);
        let bones = r.range(1, 4);
        w.n32(&format!("deformer[{k}].bone_count"), bones as u32);
        let offs = w.pos();
        for b in 0..bones {
            w.quiet = b >= 2;
            w.n16(&format!("deformer[{k}].name_offset[{b}]"), 0); // patched below
            w.quiet = false;
        }
        if bones % 2 == 1 {
            w.u16(0);
        }
        for _ in 0..bones * 12 {
            w.f32(r.f32());
        }
        for b in 0..bones {
            let here = w.pos() - start;
            w.set16(offs + 2 * b, here as u16);
            let name = format!("j_{}", r.word(2, 6));
            w.cstr(&name);
        }
    }
    w
}

// ---------------------------------------------------------------------------------------------
// cmp

fn cmp(seed: u64) -> W {
    let mut r = Rng::new(seed, 16);
    let mut w = W::new(false);
    w.zeros(0x2a800);
    let entries = r.range(1, 4);
    let names = ["male_min_size", "male_max_size", "male_min_tail", "male_max_tail", "female_min_size", "female_max_size"];
    for e in 0..entries {
        for i in 0..14 {
            if e == 0 && i < names.len() {
                w.mark(&format!("entry[0].{}", names[i]), 4);
            }
            if e == entries - 1 && i == 13 {
                w.mark("last.bust_max_z", 4);
            }
            w.f32(r.f32().abs() + 0.5);
        }
    }
    w
}

// ---------------------------------------------------------------------------------------------
// tera

fn tera(seed: u64) -> W {
    let mut r = Rng::new(seed, 17);
    let mut w = W::new(false);
    let plates = r.range(1, 5);
    w.n32("version", 0x0100_0003);
    w.n32("plate_count", plates as u32);
    w.n32("plate_size", 128);
    w.mark("clip_distance", 4);
    w.f32(r.f32().abs());
    w.mark("unknown", 4);
    w.f32(1.0);
    w.zeros(32);
    for i in 0..plates {
        w.n16(&format!("position[{i}].x"), (r.range(0, 16) as i16 - 8) as u16);
        w.n16(&format!("position[{i}].y"), (r.range(0, 16) as i16 - 8) as u16);
    }
    w
}

// ---------------------------------------------------------------------------------------------
// stm

fn stm(seed: u64) -> W {
    let mut r = Rng::new(seed, 18);
    let mut w = W::new(false);
    let n = r.range(1, 4);
    w.mark("magic", 4);
    w.bytes(b"SM\x01\x01");
    w.n32("entry_count", n as u32);
    for i in 0..n {
        w.n16(&format!("key[{i}]"), (100 + 10 * i) as u16);
    }
    let offs = w.pos();
    for i in 0..n {
        w.n16(&format!("offset[{i}]"), 0); // patched below
    }
    let base = 8 + 4 * n;
    for i in 0..n {
        let here = w.pos();
        w.set16(offs + 2 * i, ((here - base) / 2) as u16);
        // end offsets in half-float units: 1 diffuse, 1 specular, 1 emissive triple, 1 gloss, 1 power
        for (j, end) in [3u16, 6, 9, 10, 11].iter().enumerate() {
            w.n16(&format!("entry[{i}].end[{j}]"), *end);
        }
        for _ in 0..11 {
            w.u16(0x3800 + (r.u16() & 0x3FF));
        }
    }
    w
}

// ---------------------------------------------------------------------------------------------
// dic

fn dic(seed: u64) -> W {
    let mut r = Rng::new(seed, 19);
    let mut w = W::new(false);
    w.zeros(0x8124);
    // three character replacement tables
    for t in 0..3 {
        for c in 0..256u16 {
            w.u16(if t == 0 { c } else { 0 });
        }
    }
    let first = b'a' + (r.next() % 20) as u8; // first letter of every word
    let tails = r.range(2, 4); // letters following it
    // blocks are addressed relative to 0x8950; keep them clear of the character block
    let begin_len = (0x100 + first as usize + 1) * 2;
    let inner_len = (1 + tails) * 2;
    let chara_len = tails * 2;
    let word: Vec<u16> = r.word(2, 5).bytes().map(|c| c as u16).collect();
    let word_len = (word.len() + 1) * 2;
    let entries_len = 3 * 16;
    let lens = [begin_len, inner_len, chara_len, word_len, entries_len];
    let mut offs = [0usize; 5];
    let mut at = 0x200;
    for i in 0..5 {
        offs[i] = at;
        at += (lens[i] + 15) & !15;
    }
    for i in 0..5 {
        w.n32(&format!("block_offsets[{i}]"), offs[i] as u32);
    }
    for i in 0..5 {
        w.n32(&format!("block_lengths[{i}]"), lens[i] as u32);
    }
    w.zeros(4);
    assert_eq!(w.pos(), 0x8750);
    // character block: index 0 maps to page 1
    w.n32("chara_block[0]", 1);
    w.zeros(255 * 4);
    let base = 0x8950;
    // begin nodes: one entry, for page 1 + `first`
    w.pad_to(base + offs[0]);
    w.zeros(begin_len - 2);
    w.n16("begin_node[first]", 1);
    // inner nodes: [unused, -> entry 2, 0, 0...]
    w.pad_to(base + offs[1]);
    w.u16(0);
    w.n16("inner_node[1]", 2);
    for _ in 1..tails {
        w.u16(0);
    }
    // single characters
    w.pad_to(base + offs[2]);
    for i in 0..tails {
        w.n16(&format!("chara[{i}]"), (b'b' + i as u8) as u16);
    }
    // words
    w.pad_to(base + offs[3]);
    for c in &word {
        w.u16(*c);
    }
    w.n16("word.terminator", 0);
    // entries: 0 unused, 1 = characters with children, 2 = word leaf
    w.pad_to(base + offs[4]);
    w.zeros(16);
    w.n32("entry[1].flag", 0);
    w.n32("entry[1].sibling", tails as u32);
    w.n32("entry[1].child", 1);
    w.n32("entry[1].offset", 0);
    w.n32("entry[2].flag", 1);
    w.n32("entry[2].sibling", 1);
    w.n32("entry[2].child", 0);
    w.n32("entry[2].offset", 0);
    w
}

// ---------------------------------------------------------------------------------------------
// shpk

/// Selectors which `find_node` resolves in the "shpk" object: the nodes, then the alias.
pub fn shpk_selectors(seed: u64) -> Vec<u32> {
    let mut r = Rng::new(seed, 20);
    let nodes = r.range(1, 3);
    let mut v: Vec<u32> = (0..nodes).map(|i| 0x1000_0000 + (r.u32() & 0xFFFF) * 8 + i as u32).collect();
    v.push(0x2000_0000 + (r.u32() & 0xFFFF));
    v
}

fn shpk(seed: u64) -> W {
    let selectors = shpk_selectors(seed);
    let nodes = selectors.len() - 1;
    let mut r = Rng::new(seed, 21);
    let mut w = W::new(false);
    let mut strings: Vec<u8> = Vec::new();
    let (vs, ps) = (r.range(1, 2), r.range(1, 2));
    let mat_params = r.range(1, 3);
    let has_defaults = seed % 2 == 1;
    w.mark("magic", 4);
    w.bytes(b"ShPk");
    w.n32("version", 0x0D01);
    w.mark("format", 4);
    w.bytes(b"DX11");
    w.n32("file_length", 0); // patched below
    w.n32("shader_data_offset", 0); // patched below
    w.n32("strings_offset", 0); // patched below
    w.n32("vertex_shader_count", vs as u32);
    w.n32("pixel_shader_count", ps as u32);
    w.n32("material_parameters_size", (mat_params * 16) as u32);
    w.n16("material_parameter_count", mat_params as u16);
    w.n16("has_mat_param_defaults", has_defaults as u16);
    w.n16("scalar_parameter_count", 1);
    w.u16(0);
    w.n16("sampler_count", 1);
    w.n16("texture_count", 1);
    w.n16("uav_count", 1);
    w.u16(0);
    w.n32("system_key_count", 1);
    w.n32("scene_key_count", 1);
    w.n32("material_key_count", 2);
    w.n32("node_count", nodes as u32);
    w.n32("node_alias_count", 1);
    assert_eq!(w.pos(), 72);

    fn param(w: &mut W, r: &mut Rng, strings: &mut Vec<u8>, label: &str, name: &str) {
        w.u32(r.u32()); // id
        w.n32(&format!("{label}.string_offset"), strings.len() as u32);
        w.n16(&format!("{label}.string_length"), name.len() as u16);
        w.u16(0);
        w.u16(r.range(0, 7) as u16); // slot
        w.u16(r.range(1, 4) as u16); // size
        strings.extend_from_slice(name.as_bytes());
        strings.push(0);
    }

    // shaders; blobs are laid out after the tables
    let mut blob_at = 0usize;
    let mut max_vs_end = 0usize;
    let mut blobs: Vec<u8> = Vec::new();
    for i in 0..vs + ps {
        let vertex = i < vs;
        let label = if vertex { format!("vs[{i}]") } else { format!("ps[{}]", i - vs) };
        let size = r.range(2, 6) * 4;
        let total = size + if vertex { 8 } else { 0 };
        w.quiet = !(i == 0 || i == vs);
        w.n32(&format!("{label}.data_offset"), blob_at as u32);
        w.n32(&format!("{label}.data_size"), size as u32);
        w.quiet = i != 0;
        w.n16(&format!("{label}.scalar_parameter_count"), 1);
        w.n16(&format!("{label}.resource_parameter_count"), 1);
        w.n16(&format!("{label}.uav_parameter_count"), 0);
        w.n16(&format!("{label}.texture_count"), 1);
        param(&mut w, &mut r, &mut strings, &format!("{label}.scalar[0]"), "g_Parameter");
        w.quiet = true;
        param(&mut w, &mut r, &mut strings, &format!("{label}.resource[0]"), "g_Sampler");
        param(&mut w, &mut r, &mut strings, &format!("{label}.texture[0]"), "g_Texture");
        if vertex {
            max_vs_end = blob_at;
        }
        for _ in 0..total {
            blobs.push(r.u8());
        }
        blob_at += total;
    }
    for i in 0..mat_params {
        w.quiet = i != 0;
        w.u32(r.u32());
        w.n16(&format!("material_parameter[{i}].byte_offset"), (i * 16) as u16);
        w.n16(&format!("material_parameter[{i}].byte_size"), 16);
    }
    if has_defaults {
        for _ in 0..mat_params * 4 {
            w.f32(r.f32());
        }
    }
    w.quiet = false;
    param(&mut w, &mut r, &mut strings, "scalar[0]", "g_MaterialParameter");
    w.quiet = true;
    param(&mut w, &mut r, &mut strings, "sampler[0]", "g_SamplerNormal");
    param(&mut w, &mut r, &mut strings, "texture[0]", "g_SamplerNormalTexture");
    param(&mut w, &mut r, &mut strings, "uav[0]", "g_Output");
    for _ in 0..4 {
        // system, scene and two material keys
        w.u32(r.u32());
        w.u32(r.u32());
    }
    w.u32(r.u32()); // sub view key defaults
    w.u32(r.u32());
    for (n, sel) in selectors.iter().take(nodes).enumerate() {
        let passes = r.range(1, 2);
        w.quiet = n != 0;
        w.n32(&format!("node[{n}].selector"), *sel);
        w.n32(&format!("node[{n}].pass_count"), passes as u32);
        for i in 0..16 {
            w.u8(if i < passes { i as u8 } else { 0xFF });
        }
        for _ in 0..1 + 1 + 2 + 2 {
            w.u32(r.u32());
        }
        for p in 0..passes {
            w.quiet = n != 0 || p != 0;
            w.u32(r.u32());
            w.n32(&format!("node[{n}].pass[{p}].vertex_shader"), r.range(0, vs - 1) as u32);
            w.n32(&format!("node[{n}].pass[{p}].pixel_shader"), r.range(0, ps - 1) as u32);
        }
    }
    w.quiet = false;
    w.n32("alias[0].selector", selectors[nodes]);
    w.n32("alias[0].node", (nodes - 1) as u32);

    let sdo = w.pos();
    w.set32(16, sdo as u32);
    w.bytes(&blobs);
    let so = w.pos();
    w.set32(20, so as u32);
    w.bytes(&strings);
    // the parser reads `shader_data_offset` extra bytes after the start of each vertex shader blob
    w.pad_to(2 * sdo + max_vs_end);
    let len = w.pos();
    w.set32(12, len as u32);
    w
}

// ---------------------------------------------------------------------------------------------
// mtrl

fn mtrl(seed: u64) -> W {
    let mut r = Rng::new(seed, 22);
    let mut w = W::new(false);
    let textures = r.range(1, 3);
    let (uv_sets, color_sets) = (r.range(1, 2), r.range(1, 2));
    let dawntrail = seed % 2 == 0;
    // string table
    let mut strings: Vec<u8> = Vec::new();
    let mut tex_offs = Vec::new();
    for i in 0..textures {
        tex_offs.push(strings.len());
        strings.extend_from_slice(format!("chara/tex/{}_{i}.tex", r.word(3, 6)).as_bytes());
        strings.push(0);
    }
    let mut set_offs = Vec::new();
    for i in 0..uv_sets + color_sets {
        set_offs.push(strings.len());
        strings.extend_from_slice(format!("set{i}").as_bytes());
        strings.push(0);
    }
    let shpk_off = strings.len();
    strings.extend_from_slice(b"character.shpk\0");
    while strings.len() % 4 != 0 {
        strings.push(0);
    }
    w.n32("version", 0x0103_0000);
    w.n16("file_size", 0); // patched below
    w.n16("data_set_size", if dawntrail { 2048 + 128 } else { 512 + 32 });
    w.n16("string_table_size", strings.len() as u16);
    w.n16("shader_package_name_offset", shpk_off as u16);
    w.n8("texture_count", textures as u8);
    w.n8("uv_set_count", uv_sets as u8);
    w.n8("color_set_count", color_sets as u8);
    w.n8("additional_data_size", 4);
    for i in 0..textures {
        w.n16(&format!("texture[{i}].offset"), tex_offs[i] as u16);
        w.u16(0); // flags
    }
    for i in 0..uv_sets + color_sets {
        w.n16(&format!("set[{i}].name_offset"), set_offs[i] as u16);
        w.u16(i as u16); // index
    }
    let st = w.pos();
    w.bytes(&strings);
    w.mark_at("strings.texture0_terminator", st + tex_offs[0] + strings[tex_offs[0]..].iter().position(|c| *c == 0).unwrap(), 1);
    w.mark_at("strings.last_terminator", st + shpk_off + 14, 1);
    // table flags: has table, has dye table, dimensions
    w.n32("table_flags", if dawntrail { 0x53C } else { 0xC });
    let (rows, row_halves, dye_width) = if dawntrail { (32, 32, 4) } else { (16, 16, 2) };
    for _ in 0..rows * row_halves {
        w.u16(0x3800 + (r.u16() & 0x3FF));
    }
    for _ in 0..rows * dye_width {
        w.u8(r.u8());
    }
    let keys = r.range(1, 3);
    let constants = r.range(1, 3);
    let samplers = textures;
    w.n16("shader_value_list_size", (constants * 16) as u16);
    w.n16("shader_key_count", keys as u16);
    w.n16("constant_count", constants as u16);
    w.n16("sampler_count", samplers as u16);
    w.n32("flags", r.u32());
    for _ in 0..keys {
        w.u32(r.u32());
        w.u32(r.u32());
    }
    for i in 0..constants {
        w.u32(r.u32());
        w.n16(&format!("constant[{i}].value_offset"), (i * 16) as u16);
        w.n16(&format!("constant[{i}].value_size"), (r.range(1, 4) * 4) as u16);
    }
    let usages = [0x0C5E_C1F1u32, 0x1153_06BE, 0x2B99_E025, 0x8A4E_82B6, 0x565F_8FD8];
    for i in 0..samplers {
        w.n32(&format!("sampler[{i}].texture_usage"), usages[r.range(0, usages.len() - 1)]);
        w.u32(r.u32());
        w.n8(&format!("sampler[{i}].texture_index"), i as u8);
        w.zeros(3);
    }
    for _ in 0..constants * 4 {
        w.f32(r.f32());
    }
    let len = w.pos();
    w.set16(4, len as u16);
    w
}

// ---------------------------------------------------------------------------------------------
// avfx

fn avfx(seed: u64) -> W {
    let mut r = Rng::new(seed, 23);
    let mut w = W::new(false);
    w.mark("name", 4);
    w.bytes(b"XFVA");
    w.n32("size", 0); // patched below
    // tag, kind: 0 = u32, 1 = bool, 2 = f32
    let blocks: &[(&[u8; 4], u8)] = &[
        (b"reV\0", 0), (b"PFDb", 1), (b"GFb\0", 1), (b"STb\0", 1), (b"HSAb", 1), (b"CBCb", 1), (b"luCb", 1),
        (b"xPBC", 2), (b"yPBC", 2), (b"zPBC", 2), (b"xSBC", 2), (b"ySBC", 2), (b"zSBC", 2),
        (b"sMBZ", 2), (b"dMBZ", 2), (b"SmCb", 1), (b"LEFb", 1), (b"tSOb", 1), (b"BCN\0", 2),
        (b"ECN\0", 2), (b"BCF\0", 2), (b"ECF\0", 2), (b"RFPS", 2), (b"OKS\0", 2), (b"yLwD", 0),
        (b"TOwD", 0), (b"TSLD", 0), (b"S1LP", 0), (b"S2LP", 0), (b"xPvR", 2), (b"yPvR", 2),
        (b"zPvR", 2), (b"xRvR", 2), (b"xSvR", 2), (b"RvR\0", 2), (b"GvR\0", 2), (b"BvR\0", 2),
        (b"eXFA", 1), (b"iXFA", 2), (b"oXFA", 2), (b"EFGb", 1), (b"MIFG", 2), (b"SGAb", 1), (b"STLb", 1),
    ];
    let count = r.range(12, blocks.len());
    for (i, (tag, kind)) in blocks.iter().take(count).enumerate() {
        if i < 14 {
            w.mark(&format!("block[{i}].tag"), 4);
        }
        w.bytes(*tag);
        if i < 20 {
            w.mark(&format!("block[{i}].size"), 4);
        }
        w.u32(4);
        match kind {
            0 => w.u32(if i == 0 { 0x20110913 } else { r.range(0, 3) as u32 }),
            1 => {
                w.u8((r.next() % 2) as u8);
                w.zeros(3);
            }
            _ => w.f32(r.f32()),
        }
    }
    // an empty nested base block closes the file; it is skipped by its size
    w.mark("tail.tag", 4);
    w.bytes(b"XFVA");
    w.n32("tail.size", 4);
    w.u32(0);
    let len = w.pos();
    w.set32(4, (len - 8) as u32);
    w
}

// ---------------------------------------------------------------------------------------------
// db

fn db(seed: u64) -> W {
    let mut r = Rng::new(seed, 24);
    let mut w = W::new(false);
    w.mark("magic", 8);
    w.bytes(b"SqPack\0\0");
    w.n8("platform_id", 0);
    w.zeros(3);
    w.n32("size", 1024);
    w.n32("version", 1);
    w.n8("file_type", 0);
    w.zeros(3);
    w.n32("unk1", r.u32());
    w.n32("unk2", r.u32());
    w.n16("region", 0xFFFF);
    w.zeros(2);
    w.zeros(924);
    w.mark("sha1_hash", 4);
    for _ in 0..20 {
        w.u8(r.u8());
    }
    w.zeros(44);
    assert_eq!(w.pos(), 1024);
    let entries = r.range(1, 4);
    w.n32("db.size", 1024);
    w.n32("db.unk", entries as u32);
    w.zeros(1016);
    for i in 0..entries {
        w.zeros(4);
        w.n32(&format!("entry[{i}].offset"), (i * 128) as u32);
        w.n32(&format!("entry[{i}].size"), r.range(1, 4000) as u32);
        w.zeros(4);
        w.n32(&format!("entry[{i}].filename_hash"), r.u32());
        w.n32(&format!("entry[{i}].path_hash"), r.u32());
        let p = w.pos();
        let path = format!("exd/{}/{}.exd", r.word(2, 6), r.word(2, 8));
        w.bytes(path.as_bytes());
        w.mark(&format!("entry[{i}].path_terminator"), 1);
        w.pad_to(p + 240);
    }
    w
}

// ---------------------------------------------------------------------------------------------
// lgb

/// (asset type, payload spec). Spec letters: u = u32, f = f32, h = u16, c = u8, b = bool, z = zero byte,
/// Exy = i32 enumeration with values x..=y.
const LGB_OBJECTS: &[(u32, &str)] = &[
    (0x01, "uuE02uuubbbzf"),                         // BG
    (0x03, "E06ffE01ffuccccfbzhbbbzfffhz"),          // LayLight
    (0x04, "ufuccccbbhfffff"),                       // Vfx
    (0x05, "E14uu"),                                 // PositionMarker
    (0x06, "uE13uuE12bbbzuubzzzE03E03"),             // SharedGroup
    (0x07, "uu"),                                    // Sound
    (0x08, "uucchucchuuuuu"),                        // EventNPC
    (0x09, "uucchucchuuuufhccccccccccccccuuffucchuuuuuu"), // BattleNPC
    (0x0C, "uuu"),                                   // Aetheryte
    (0x0D, "uuE13bchfuffu"),                         // EnvSet
    (0x0E, "uu"),                                    // Gathering
    (0x10, "czzzuu"),                                // Treasure
    (0x28, "E13uufczzzu"),                           // PopRange
    (0x29, "E16hbzuE11hhuuufu"),                     // ExitRange
    (0x2B, ""),                                      // MapRange
    (0x31, ""),                                      // EventRange
    (0x47, ""),                                      // PrefetchRange
    (90, ""),                                        // Unk1
];

fn lgb_payload(w: &mut W, r: &mut Rng, label: &str, spec: &str) {
    let s = spec.as_bytes();
    let mut i = 0;
    let mut enums = 0;
    while i < s.len() {
        match s[i] {
            b'u' => w.u32(r.range(0, 200) as u32),
            b'f' => w.f32(r.f32()),
            b'h' => w.u16(r.range(0, 300) as u16),
            b'c' => w.u8(r.u8()),
            b'b' => w.u8((r.next() % 2) as u8),
            b'z' => w.u8(0),
            b'E' => {
                let (lo, hi) = ((s[i + 1] - b'0') as usize, (s[i + 2] - b'0') as usize);
                w.quiet = w.quiet || enums >= 2;
                w.n32(&format!("{label}.enum[{enums}]"), r.range(lo, hi) as u32);
                enums += 1;
                i += 2;
            }
            _ => unreachable!(),
        }
        i += 1;
    }
}

fn lgb(seed: u64) -> W {
    let mut r = Rng::new(seed, 25);
    let mut w = W::new(false);
    let layers = r.range(1, 2);
    w.mark("file_id", 4);
    w.bytes(b"LGB1");
    w.n32("file_size", 0); // patched below
    w.n32("total_chunk_count", 1);
    w.mark("chunk_id", 4);
    w.bytes(b"LGP1");
    w.n32("chunk_size", 0); // patched below
    w.n32("layer_group_id", r.range(1, 400) as u32);
    w.n32("chunk.name_offset", 0); // patched below, relative to 20
    w.n32("layer_offset", 16);
    w.n32("layer_count", layers as u32);
    let table = w.pos(); // 36
    for l in 0..layers {
        w.n32(&format!("layer_offsets[{l}]"), 0); // patched below
    }
    for l in 0..layers {
        w.align(4);
        let ls = w.pos();
        w.set32(table + 4 * l, (ls - table) as u32);
        let objects = r.range(3, 7);
        let lp = format!("layer[{l}]");
        w.quiet = l != 0;
        w.u32(r.range(1, 9999) as u32); // layer id
        w.n32(&format!("{lp}.name_offset"), 0); // +4, patched below
        w.quiet = false;
        w.n32(&format!("{lp}.instance_object_offset"), 52);
        w.n32(&format!("{lp}.instance_object_count"), objects as u32);
        w.quiet = l != 0;
        w.bytes(&[1, 0, 0, 1]);
        w.n32(&format!("{lp}.layer_set_referenced_list_offset"), 0); // +20, patched below
        w.u16(r.range(0, 50) as u16);
        w.u16(0);
        w.bytes(&[0, 0]);
        w.u16(0);
        w.zeros(4);
        w.n32(&format!("{lp}.ob_set_referenced_list"), 0); // +36, patched below
        w.n32(&format!("{lp}.ob_set_referenced_list_count"), 1);
        w.n32(&format!("{lp}.ob_set_enable_referenced_list"), 0); // +44, patched below
        w.n32(&format!("{lp}.ob_set_enable_referenced_list_count"), 1);
        let offsets = w.pos(); // ls + 52
        for o in 0..objects {
            if l == 0 && o < 3 {
                w.mark(&format!("{lp}.instance_offsets[{o}]"), 4);
            }
            w.u32(0); // patched below
        }
        for o in 0..objects {
            let start = w.pos();
            w.set32(offsets + 4 * o, (start - offsets) as u32);
            // the first two layers' worth of objects walk the table so every kind appears over the seeds
            let (ty, spec) = LGB_OBJECTS[(seed as usize * 5 + l * 7 + o) % LGB_OBJECTS.len()];
            let op = format!("{lp}.object[{o}]");
            w.quiet = l != 0 || o >= 4;
            w.n32(&format!("{op}.asset_type"), ty);
            w.u32(r.range(1, 100000) as u32); // instance id
            let name_off = w.pos();
            if o < 2 {
                w.mark(&format!("{op}.name_offset"), 4);
            }
            w.u32(0); // patched below
            for _ in 0..9 {
                w.f32(r.f32());
            }
            w.quiet = l != 0 || w.f.len() >= 30;
            lgb_payload(&mut w, &mut r, &op, spec);
            let here = w.pos();
            w.set32(name_off, (here - start) as u32);
            let name = format!("obj_{}", r.word(2, 6));
            w.cstr(&name);
            w.align(4);
        }
        // layer set referenced list, the sets follow it directly
        w.quiet = l != 0;
        let at = w.pos();
        w.set32(ls + 20, (at - ls) as u32);
        let sets = r.range(1, 2);
        w.n32(&format!("{lp}.referenced_type"), r.range(0, 3) as u32);
        w.u32(12);
        w.n32(&format!("{lp}.layer_set_count"), sets as u32);
        for _ in 0..sets {
            w.u32(r.range(1, 5000) as u32);
        }
        // OBSetReferenced
        let at = w.pos();
        w.set32(ls + 36, (at - ls) as u32);
        w.n32(&format!("{lp}.ob_set[0].asset_type"), 0x06);
        w.u32(r.u32());
        w.u32(0);
        // OBSetEnableReferenced
        let at = w.pos();
        w.set32(ls + 44, (at - ls) as u32);
        w.n32(&format!("{lp}.ob_set_enable[0].asset_type"), 0x06);
        w.u32(r.u32());
        w.bytes(&[1, 0, 0, 0]);
        // layer name
        let at = w.pos();
        w.set32(ls + 4, (at - ls) as u32);
        let name = format!("Layer_{}", r.word(2, 6));
        w.cstr(&name);
    }
    w.quiet = false;
    let at = w.pos();
    w.set32(24, (at - 20) as u32);
    w.cstr("PlanLive");
    let len = w.pos();
    w.set32(4, len as u32);
    w.set32(16, (len - 20) as u32);
    w
}

// ---------------------------------------------------------------------------------------------
// sklb (header + Havok binary tag file)

fn hk_int(w: &mut W, v: i32) {
    let neg = (v < 0) as u8;
    let mag = v.unsigned_abs();
    let mut rest = mag >> 6;
    let mut first = (((mag & 0x3F) as u8) << 1) | neg;
    if rest > 0 {
        first |= 0x80;
    }
    w.u8(first);
    while rest > 0 {
        let mut b = (rest & 0x7F) as u8;
        rest >>= 7;
        if rest > 0 {
            b |= 0x80;
        }
        w.u8(b);
    }
}

fn hk_str(w: &mut W, s: &str) {
    hk_int(w, s.len() as i32);
    w.bytes(s.as_bytes());
}

/// One type definition: name, members as (name, type bits, class name).
/// `detail` bounds the recorded fields: 0 = member count, 1 = + name length, 2 = everything.
fn hk_type(w: &mut W, label: &str, detail: u8, name: &str, members: &[(&str, i32, Option<&str>)]) {
    w.quiet = detail < 2;
    w.n8(&format!("{label}.tag"), 2 << 1);
    w.quiet = detail < 1;
    w.mark(&format!("{label}.name_length"), 1);
    hk_str(w, name);
    hk_int(w, 0); // version
    w.quiet = detail < 2;
    w.mark(&format!("{label}.parent"), 1);
    w.quiet = false;
    hk_int(w, 0);
    w.mark(&format!("{label}.member_count"), 1);
    hk_int(w, members.len() as i32);
    for (i, (mname, bits, class)) in members.iter().enumerate() {
        hk_str(w, mname);
        w.quiet = detail < 2;
        w.mark(&format!("{label}.member[{i}].type"), 1);
        w.quiet = false;
        hk_int(w, *bits);
        if let Some(c) = class {
            hk_str(w, c);
        }
    }
}

fn sklb(seed: u64) -> W {
    let mut r = Rng::new(seed, 26);
    let mut w = W::new(false);
    let v1 = seed % 2 == 0;
    w.mark("magic", 4);
    w.bytes(&0x736B_6C62u32.to_le_bytes());
    w.n32("sklb.version", if v1 { 0x3132_3030 } else { 0x3133_3030 });
    let body = 101 + 100 * r.range(0, 8) as u32;
    if v1 {
        w.u16(28);
        w.n16("havok_offset", 32);
        w.u32(body);
        w.u32(0);
        w.u32(0);
        w.u32(0);
        w.pad_to(32);
    } else {
        w.u32(36);
        w.n32("havok_offset", 48);
        w.u32(0);
        w.u32(body);
        w.u32(0);
        w.u32(0);
        w.u32(0);
        w.pad_to(48);
    }
    // Havok tag file
    w.n32("havok.signature1", 0xCAB0_0D1E);
    w.u32(0xD011_FACE);
    w.u8(1 << 1);
    w.n8("fileinfo.version", 3 << 1);
    const STRING: i32 = 10;
    const OBJECT: i32 = 8;
    const ARRAY: i32 = 0x10;
    hk_type(&mut w, "type[1]", 1, "hkRootLevelContainerNamedVariant",
        &[("name", STRING, None), ("className", STRING, None), ("variant", OBJECT, Some("hkReferencedObject"))]);
    hk_type(&mut w, "type[2]", 1, "hkRootLevelContainer",
        &[("namedVariants", ARRAY | 9, Some("hkRootLevelContainerNamedVariant"))]);
    hk_type(&mut w, "type[3]", 0, "hkaBone", &[("name", STRING, None), ("lockTranslation", 1, None)]);
    hk_type(&mut w, "type[4]", 2, "hkaSkeleton",
        &[("name", STRING, None), ("parentIndices", ARRAY | 2, None), ("bones", ARRAY | 9, Some("hkaBone")),
          ("referencePose", ARRAY | 6, None), ("referenceFloats", ARRAY | 3, None)]);
    hk_type(&mut w, "type[5]", 1, "hkaAnimationContainer",
        &[("skeletons", ARRAY | OBJECT, Some("hkaSkeleton")), ("animations", ARRAY | OBJECT, Some("hkaAnimation")),
          ("bindings", ARRAY | OBJECT, Some("hkaAnimationBinding"))]);
    // object 1: the root container with one named variant -> object 2
    w.n8("object[1].tag", 4 << 1);
    w.n8("object[1].type", 2 << 1);
    w.n8("object[1].existence", 0b1);
    w.n8("namedVariants.length", 1 << 1);
    w.n8("namedVariants.existence", 0b111);
    hk_str(&mut w, "Merged Animation Container");
    w.mark("className.length", 1);
    hk_str(&mut w, "hkaAnimationContainer");
    w.n8("variant.reference", 2 << 1);
    // object 2: animation container -> skeleton object 3, no animations or bindings
    w.u8(4 << 1);
    w.n8("object[2].type", 5 << 1);
    w.n8("object[2].existence", 0b101);
    w.n8("skeletons.length", 1 << 1);
    w.n8("skeletons[0].reference", 3 << 1);
    w.u8(0);
    // object 3: the skeleton
    let bones = r.range(1, 5);
    w.u8(4 << 1);
    w.n8("object[3].type", 4 << 1);
    w.n8("object[3].existence", 0b01111);
    hk_str(&mut w, "skeleton");
    w.n8("parentIndices.length", (bones as u8) << 1);
    hk_int(&mut w, 0); // element kind
    for b in 0..bones {
        if b < 1 {
            w.mark(&format!("parentIndices[{b}]"), 1);
        }
        hk_int(&mut w, b as i32 - 1);
    }
    w.n8("bones.length", (bones as u8) << 1);
    w.u8(0b01);
    for b in 0..bones {
        let name = if b == 0 { "n_root".to_string() } else { format!("j_{}", r.word(2, 6)) };
        if b == 0 {
            w.mark("bones[0].name_length", 1);
        }
        hk_str(&mut w, &name);
    }
    w.n8("referencePose.length", (bones as u8) << 1);
    for _ in 0..bones {
        for v in [r.f32(), r.f32(), r.f32(), 0.0, 0.0, 0.0, 0.0, 1.0, 1.0, 1.0, 1.0, 0.0] {
            w.f32(v);
        }
    }
    w.n8("fileend.tag", 7 << 1);
    w
}
