//! Supervisor: runs scenarios in single-threaded worker child processes, attributes deaths and
//! hangs to the scenario in flight (M2/M3), aggregates statistics deterministically.

use crate::harness::{RunResult, Tier, Violation};
use crate::props::Doc;
use std::collections::{BTreeMap, HashSet};
use std::io::{BufRead, BufReader, Read, Write};
use std::process::{Child, ChildStdin, Command, Stdio};
use std::sync::atomic::{AtomicU64, AtomicUsize, Ordering};
use std::sync::mpsc::{channel, Receiver, RecvTimeoutError};
use std::sync::{Arc, Mutex};
use std::time::{Duration, Instant};

pub const WATCHDOG: Duration = Duration::from_secs(20);

pub struct Death {
    pub kind: String,
    pub entry: String,
    pub frame: String,
    pub detail: String,
}

pub struct Worker {
    child: Child,
    stdin: ChildStdin,
    rx: Receiver<String>,
    stderr_path: std::path::PathBuf,
    prop: String,
    tier: Tier,
    /// request lines this worker process has completed since it was spawned: its state, if
    /// physis keeps any between calls, is a function of exactly this list
    pub history: Vec<String>,
}

fn run_dir() -> std::path::PathBuf {
    let exe = std::env::current_exe().expect("HARNESS: current_exe");
    let dir = exe.parent().unwrap().join("run");
    std::fs::create_dir_all(&dir).ok();
    dir
}

static WORKER_SEQ: AtomicUsize = AtomicUsize::new(0);

impl Worker {
    pub fn spawn(prop: &str, tier: Tier) -> Worker {
        let exe = std::env::current_exe().expect("HARNESS: current_exe");
        let id = WORKER_SEQ.fetch_add(1, Ordering::Relaxed);
        let stderr_path = run_dir().join(format!("w{}-{}.err", std::process::id(), id));
        let errf = std::fs::File::create(&stderr_path).expect("HARNESS: stderr file");
        let mut child = Command::new(exe)
            .arg("worker")
            .arg(prop)
            .arg(if tier == Tier::Quick { "quick" } else { "thorough" })
            .env("RUST_BACKTRACE", "1")
            .stdin(Stdio::piped())
            .stdout(Stdio::piped())
            .stderr(Stdio::from(errf))
            .spawn()
            .expect("HARNESS: cannot spawn worker");
        let stdin = child.stdin.take().unwrap();
        let stdout = child.stdout.take().unwrap();
        let (tx, rx) = channel();
        std::thread::spawn(move || {
            let r = BufReader::with_capacity(1 << 16, stdout);
            for line in r.lines() {
                match line {
                    Ok(l) => {
                        if tx.send(l).is_err() {
                            break;
                        }
                    }
                    Err(_) => break,
                }
            }
        });
        Worker { child, stdin, rx, stderr_path, prop: prop.to_string(), tier, history: vec![] }
    }

    fn respawn(&mut self) {
        let w = Worker::spawn(&self.prop, self.tier);
        let old = std::mem::replace(self, w);
        drop(old);
    }

    fn stderr_tail(&self) -> String {
        let mut s = String::new();
        if let Ok(mut f) = std::fs::File::open(&self.stderr_path) {
            let _ = f.read_to_string(&mut s);
        }
        // keep the head (allocation record, panic message) and the tail (backtrace end)
        if s.len() > 24576 {
            let mut head_end = 8192;
            while !s.is_char_boundary(head_end) {
                head_end -= 1;
            }
            let mut tail_start = s.len() - 16384;
            while !s.is_char_boundary(tail_start) {
                tail_start += 1;
            }
            s = format!("{}\n...\n{}", &s[..head_end], &s[tail_start..]);
        }
        s
    }

    /// Sends one request line and waits for its result. A death or hang is replayed once alone
    /// (with operation markers on) and only then turned into a violation result for `seed`.
    pub fn request(&mut self, line: &str, seed: u64) -> RunResult {
        match self.request_once(line) {
            Ok(r) => {
                if !line.starts_with('P') {
                    self.history.push(line.to_string());
                }
                r
            }
            Err(first) => {
                self.respawn();
                let prop = self.prop.clone();
                match self.request_once(&format!("M{}", line)) {
                    Err(d) => {
                        self.respawn();
                        death_result(seed, &prop, &d.kind, &d.entry, &d.frame, d.detail)
                    }
                    Ok(mut r) => {
                        if r.violation.is_none() {
                            r.violation = Some(Violation {
                                sig: format!("{}|unreproduced-death|{}", prop, first.kind),
                                msg: format!(
                                    "worker died ({}: {}) but the same scenario ran to completion when replayed alone",
                                    first.kind, first.detail
                                ),
                            });
                        }
                        r
                    }
                }
            }
        }
    }

    fn request_once(&mut self, line: &str) -> Result<RunResult, Death> {
        if self.stdin.write_all(line.as_bytes()).is_err()
            || self.stdin.write_all(b"\n").is_err()
            || self.stdin.flush().is_err()
        {
            return Err(Death { kind: "worker-gone".into(), entry: String::new(), frame: String::new(), detail: "pipe closed".into() });
        }
        let start = Instant::now();
        let mut entry = String::new();
        loop {
            let left = WATCHDOG.checked_sub(start.elapsed()).unwrap_or(Duration::ZERO);
            match self.rx.recv_timeout(left) {
                Ok(l) => {
                    if let Some(rest) = l.strip_prefix("R ") {
                        match serde_json::from_str::<RunResult>(rest) {
                            Ok(r) => return Ok(r),
                            Err(e) => {
                                eprintln!("HARNESS: bad result line: {} ({})", rest, e);
                                std::process::exit(2);
                            }
                        }
                    } else if let Some(rest) = l.strip_prefix("O ") {
                        entry = rest.to_string();
                    } else if l.starts_with("HARNESS") {
                        eprintln!("{}", l);
                        std::process::exit(2);
                    }
                }
                Err(RecvTimeoutError::Timeout) => {
                    let _ = self.child.kill();
                    let _ = self.child.wait();
                    return Err(Death {
                        kind: "watchdog".into(),
                        entry,
                        frame: String::new(),
                        detail: format!("no result within {:?}", WATCHDOG),
                    });
                }
                Err(RecvTimeoutError::Disconnected) => {
                    let status = self.child.wait().ok();
                    let tail = self.stderr_tail();
                    if tail.contains("HARNESS:") {
                        eprintln!("{}", tail);
                        eprintln!("HARNESS: worker reported a harness defect; aborting the check");
                        std::process::exit(2);
                    }
                    let (kind, detail) = classify_death(status, &tail);
                    let frame = frame_from_stderr(&tail);
                    return Err(Death { kind, entry, frame, detail });
                }
            }
        }
    }

    pub fn run_seed(&mut self, seed: u64) -> RunResult {
        self.request(&format!("G {}", seed), seed)
    }

    pub fn run_directed(&mut self, idx: usize) -> RunResult {
        self.request(&format!("X {}", idx), 0xD1EC7ED0 + idx as u64)
    }

    pub fn run_doc(&mut self, doc: &Doc, trace: bool) -> RunResult {
        let j = serde_json::to_string(doc).expect("HARNESS: doc json");
        self.request(&format!("{} {}", if trace { "TD" } else { "D" }, j), doc.seed)
    }
}

impl Drop for Worker {
    fn drop(&mut self) {
        let _ = self.stdin.write_all(b"Q\n");
        let _ = self.stdin.flush();
        let _ = self.child.kill();
        let _ = self.child.wait();
        let _ = std::fs::remove_file(&self.stderr_path);
    }
}

fn classify_death(status: Option<std::process::ExitStatus>, tail: &str) -> (String, String) {
    use std::os::unix::process::ExitStatusExt;
    let sig = status.and_then(|s| s.signal());
    if tail.contains("VERIF-ALLOC") {
        // same signature as the in-process allocation record: the process merely did not survive
        let line = tail.lines().rev().find(|l| l.contains("VERIF-ALLOC")).unwrap_or("");
        let kind = if line.contains("growth=1") { "alloc|growth" } else { "alloc|request" };
        return (kind.into(), line.to_string());
    }
    if tail.contains("has overflowed its stack") {
        return ("stack-overflow".into(), "stack overflow".into());
    }
    if let Some(l) = tail.lines().find(|l| l.contains("memory allocation of")) {
        return ("oom-abort".into(), l.to_string());
    }
    match sig {
        Some(6) => ("abort".into(), last_lines(tail, 3)),
        Some(11) => ("sigsegv".into(), last_lines(tail, 3)),
        Some(9) => ("killed".into(), last_lines(tail, 3)),
        Some(s) => (format!("signal{}", s), last_lines(tail, 3)),
        None => (
            format!("exit{}", status.and_then(|s| s.code()).unwrap_or(-1)),
            last_lines(tail, 3),
        ),
    }
}

fn last_lines(s: &str, n: usize) -> String {
    let v: Vec<&str> = s.lines().rev().take(n).collect();
    v.into_iter().rev().collect::<Vec<_>>().join(" / ")
}

fn frame_from_stderr(tail: &str) -> String {
    if let Some(l) = tail.lines().rev().find(|l| l.contains("VERIF-ALLOC")) {
        if let Some(p) = l.find("frame=") {
            return l[p + 6..].split('@').next().unwrap_or("?").trim().to_string();
        }
    }
    match crate::monitor::innermost_physis_frame(tail) {
        Some(f) => f.sig(),
        None => "?".into(),
    }
}

fn death_result(seed: u64, prop: &str, kind: &str, entry: &str, frame: &str, detail: String) -> RunResult {
    // asset-buffer scenarios are classified per format, kind and source file (see props/assets.rs)
    let sig = match entry.strip_prefix("asset:") {
        Some(format) => {
            let k = kind.split('|').next().unwrap_or(kind);
            match frame.split(':').next().filter(|f| f.starts_with("src/") && f.ends_with(".rs")) {
                Some(file) => format!("{}|asset|{}|{}|{}", prop, format, k, file),
                None => format!("{}|asset|{}|{}", prop, format, k),
            }
        }
        None => format!("{}|{}|{}", prop, kind, frame),
    };
    RunResult {
        seed,
        violation: Some(Violation {
            sig,
            msg: format!("worker died ({}) during {}: {}", kind, entry, detail),
        }),
        ..Default::default()
    }
}

#[derive(Default)]
pub struct Agg {
    pub evaluations: u64,
    pub by_cfg: [u64; 3],
    pub nontrivial: u64,
    pub distinct_nontrivial: HashSet<(u64, u64)>,
    pub distinct_schedules: HashSet<u64>,
    pub states: HashSet<u64>,
    pub steps: u64,
    pub ops: u64,
    pub fired: Vec<u64>,
    pub hostile: Vec<u64>,
    pub at_rest: Vec<u64>,
    pub probes: Vec<u64>,
    pub split_small: u64,
    pub max_request: u64,
    pub peak_growth: u64,
    pub leak_checks: u64,
    pub violations: Vec<(u64, Violation, Option<String>)>,
    /// seed of a failing scenario -> request lines its worker had completed before it
    /// signature -> request lines the worker had completed before the first scenario that failed so
    pub histories: BTreeMap<u64, Vec<String>>,
    pub sigs_with_doc: HashSet<String>,
    /// seed -> (log hash, verdict signature) for the determinism self-test
    pub per_seed: BTreeMap<u64, (u64, u64, String)>,
    pub keep_per_seed: bool,
}

fn add_vec(a: &mut Vec<u64>, b: &[u64]) {
    if a.len() < b.len() {
        a.resize(b.len(), 0);
    }
    for (i, v) in b.iter().enumerate() {
        a[i] += v;
    }
}

impl Agg {
    pub fn add(&mut self, r: RunResult) {
        self.evaluations += 1;
        self.by_cfg[(r.cfg as usize).min(2)] += 1;
        if r.nontrivial {
            self.nontrivial += 1;
            self.distinct_nontrivial.insert((r.sched_hash, r.shape_hash));
        }
        self.distinct_schedules.insert(r.sched_hash);
        for s in &r.states {
            self.states.insert(*s);
        }
        self.steps += r.steps;
        self.ops += r.ops as u64;
        add_vec(&mut self.fired, &r.fired);
        add_vec(&mut self.hostile, &r.hostile);
        add_vec(&mut self.at_rest, &r.at_rest);
        let p: Vec<u64> = r.probes.iter().map(|x| *x as u64).collect();
        add_vec(&mut self.probes, &p);
        self.split_small += r.split_small;
        self.max_request = self.max_request.max(r.max_request);
        self.peak_growth = self.peak_growth.max(r.peak_growth);
        self.leak_checks += r.leak_checks as u64;
        if self.keep_per_seed {
            self.per_seed.insert(
                r.seed,
                (
                    r.log_hash,
                    r.sched_hash,
                    r.violation.as_ref().map(|v| v.sig.clone()).unwrap_or_default(),
                ),
            );
        }
        if let Some(v) = r.violation {
            let doc = if self.sigs_with_doc.insert(v.sig.clone()) { r.trace.first().cloned() } else { None };
            self.violations.push((r.seed, v, doc));
        }
    }

    pub fn merge(&mut self, o: Agg) {
        self.evaluations += o.evaluations;
        for i in 0..3 {
            self.by_cfg[i] += o.by_cfg[i];
        }
        self.nontrivial += o.nontrivial;
        self.distinct_nontrivial.extend(o.distinct_nontrivial);
        self.distinct_schedules.extend(o.distinct_schedules);
        self.states.extend(o.states);
        self.steps += o.steps;
        self.ops += o.ops;
        add_vec(&mut self.fired, &o.fired);
        add_vec(&mut self.hostile, &o.hostile);
        add_vec(&mut self.at_rest, &o.at_rest);
        add_vec(&mut self.probes, &o.probes);
        self.split_small += o.split_small;
        self.max_request = self.max_request.max(o.max_request);
        self.peak_growth = self.peak_growth.max(o.peak_growth);
        self.leak_checks += o.leak_checks;
        self.violations.extend(o.violations);
        self.sigs_with_doc.extend(o.sigs_with_doc);
        for (k, v) in o.histories {
            self.histories.entry(k).or_insert(v);
        }
        self.per_seed.extend(o.per_seed);
    }
}

pub struct BatchSpec {
    pub prop: String,
    pub tier: Tier,
    pub base_seed: u64,
    pub runs: u64,
    pub workers: usize,
    pub deadline: Option<Instant>,
    pub keep_per_seed: bool,
    pub directed: usize,
    /// signatures listed as known findings: they do not count towards the fail-fast limits
    pub known: Vec<String>,
}

/// Runs directed scenarios and `runs` seeded scenarios (seed = base + i). Seeds are handed out in
/// order; results are independent of the number of workers. Stops early at the deadline (the
/// number of evaluations actually done is what gets reported).
pub fn run_batch(spec: &BatchSpec) -> Agg {
    let next = Arc::new(AtomicU64::new(0));
    let total = Arc::new(Mutex::new(Agg { keep_per_seed: spec.keep_per_seed, ..Default::default() }));
    let directed_next = Arc::new(AtomicUsize::new(0));
    // fail fast: a tree that hangs or crashes workers over and over, or fails thousands of
    // scenarios, needs no further sampling to be reported
    let slow_hits = Arc::new(AtomicUsize::new(0));
    let unknown_hits = Arc::new(AtomicUsize::new(0));
    let known = Arc::new(spec.known.clone());
    let mut handles = vec![];
    for _ in 0..spec.workers.max(1) {
        let next = next.clone();
        let total = total.clone();
        let directed_next = directed_next.clone();
        let prop = spec.prop.clone();
        let tier = spec.tier;
        let base = spec.base_seed;
        let runs = spec.runs;
        let deadline = spec.deadline;
        let keep = spec.keep_per_seed;
        let n_directed = spec.directed;
        let slow_hits = slow_hits.clone();
        let unknown_hits = unknown_hits.clone();
        let known = known.clone();
        handles.push(std::thread::spawn(move || {
            let note = |r: &RunResult| {
                if let Some(v) = &r.violation {
                    if !known.contains(&v.sig) {
                        unknown_hits.fetch_add(1, Ordering::Relaxed);
                        if v.sig.contains("|watchdog") {
                            slow_hits.fetch_add(1, Ordering::Relaxed);
                        }
                    }
                }
            };
            let limit: usize = std::env::var("VERIF_FAILFAST").ok().and_then(|s| s.parse().ok()).unwrap_or(5000);
            let stop = || slow_hits.load(Ordering::Relaxed) >= 2 || unknown_hits.load(Ordering::Relaxed) >= limit;
            let mut w = Worker::spawn(&prop, tier);
            let mut agg = Agg { keep_per_seed: keep, ..Default::default() };
            loop {
                let d = directed_next.fetch_add(1, Ordering::Relaxed);
                if d >= n_directed || stop() {
                    break;
                }
                let r = w.run_directed(d);
                note(&r);
                if let Some(v) = &r.violation {
                    // same condition as Agg::add uses for keeping the document
                    if !agg.sigs_with_doc.contains(&v.sig) && !w.history.is_empty() {
                        agg.histories.insert(r.seed, w.history[..w.history.len() - 1].to_vec());
                    }
                }
                agg.add(r);
            }
            loop {
                if let Some(dl) = deadline {
                    if Instant::now() >= dl {
                        break;
                    }
                }
                let i = next.fetch_add(1, Ordering::Relaxed);
                if i >= runs || stop() {
                    break;
                }
                let r = w.run_seed(base.wrapping_add(i));
                note(&r);
                if let Some(v) = &r.violation {
                    // same condition as Agg::add uses for keeping the document
                    if !agg.sigs_with_doc.contains(&v.sig) && !w.history.is_empty() {
                        agg.histories.insert(r.seed, w.history[..w.history.len() - 1].to_vec());
                    }
                }
                agg.add(r);
            }
            total.lock().unwrap().merge(agg);
        }));
    }
    for h in handles {
        h.join().expect("HARNESS: worker manager thread panicked");
    }
    let mut agg = std::mem::take(&mut *total.lock().unwrap());
    agg.violations.sort_by(|a, b| (a.0, a.2.is_none()).cmp(&(b.0, b.2.is_none())));
    agg
}
