//! Allocation monitor: the executable defines the malloc family itself and forwards to glibc's
//! `__libc_*` entry points. A `#[global_allocator]` would not be enough because zlib-rs reaches
//! `std::alloc::System` (plain malloc) directly.
//!
//! The hook only observes, with one exception: a request (or a live-growth) beyond the
//! per-operation bound while physis code is running is recorded and then refused, so that a
//! 4 GiB `vec![0; n]` can neither exhaust the machine nor go unnoticed.

use std::ffi::c_void;
use std::sync::atomic::{AtomicBool, AtomicUsize, Ordering::Relaxed};

extern "C" {
    fn __libc_malloc(size: usize) -> *mut c_void;
    fn __libc_calloc(n: usize, size: usize) -> *mut c_void;
    fn __libc_realloc(p: *mut c_void, size: usize) -> *mut c_void;
    fn __libc_free(p: *mut c_void);
    fn __libc_memalign(align: usize, size: usize) -> *mut c_void;
    fn malloc_usable_size(p: *mut c_void) -> usize;
}

static LIVE: AtomicUsize = AtomicUsize::new(0);
static ALLOCS: AtomicUsize = AtomicUsize::new(0);
static HARNESS_DEPTH: AtomicUsize = AtomicUsize::new(0);
static HARNESS_BYTES: AtomicUsize = AtomicUsize::new(0);

static OP_ACTIVE: AtomicBool = AtomicBool::new(false);
static OP_LIVE0: AtomicUsize = AtomicUsize::new(0);
static OP_HB0: AtomicUsize = AtomicUsize::new(0);
static OP_BOUND: AtomicUsize = AtomicUsize::new(usize::MAX);
static OP_MAX_REQ: AtomicUsize = AtomicUsize::new(0);
static OP_PEAK_GROWTH: AtomicUsize = AtomicUsize::new(0);
static FLAG_SIZE: AtomicUsize = AtomicUsize::new(0);
static FLAG_GROWTH: AtomicBool = AtomicBool::new(false);
static IN_HOOK: AtomicBool = AtomicBool::new(false);
static mut FLAG_FRAME: Option<String> = None;

pub fn enter_harness() {
    HARNESS_DEPTH.fetch_add(1, Relaxed);
}
pub fn leave_harness() {
    HARNESS_DEPTH.fetch_sub(1, Relaxed);
}
pub fn harness_bytes_add(n: usize) {
    HARNESS_BYTES.fetch_add(n, Relaxed);
}
pub fn harness_bytes_sub(n: usize) {
    let cur = HARNESS_BYTES.load(Relaxed);
    HARNESS_BYTES.store(cur.saturating_sub(n), Relaxed);
}

pub fn live() -> usize {
    LIVE.load(Relaxed)
}
pub fn allocs() -> usize {
    ALLOCS.load(Relaxed)
}

/// Live bytes not attributable to SimFs storage.
pub fn live_net() -> isize {
    LIVE.load(Relaxed) as isize - HARNESS_BYTES.load(Relaxed) as isize
}

pub struct OpReport {
    pub max_request: usize,
    pub peak_growth: usize,
    /// Some((size, by_growth, frame)) if the bound was exceeded
    pub flagged: Option<(usize, bool, String)>,
}

/// Start accounting for one physis operation. `bound` is the largest single request and the
/// largest live growth the operation may cause.
pub fn op_begin(bound: usize) {
    OP_LIVE0.store(LIVE.load(Relaxed), Relaxed);
    OP_HB0.store(HARNESS_BYTES.load(Relaxed), Relaxed);
    OP_BOUND.store(bound, Relaxed);
    OP_MAX_REQ.store(0, Relaxed);
    OP_PEAK_GROWTH.store(0, Relaxed);
    FLAG_SIZE.store(0, Relaxed);
    FLAG_GROWTH.store(false, Relaxed);
    unsafe {
        let p = &raw mut FLAG_FRAME;
        *p = None;
    }
    OP_ACTIVE.store(true, Relaxed);
}

pub fn op_end() -> OpReport {
    OP_ACTIVE.store(false, Relaxed);
    let size = FLAG_SIZE.load(Relaxed);
    let flagged = if size != 0 {
        let frame = unsafe {
            let p = &raw mut FLAG_FRAME;
            (*p).take().unwrap_or_default()
        };
        Some((size, FLAG_GROWTH.load(Relaxed), frame))
    } else {
        None
    };
    OpReport {
        max_request: OP_MAX_REQ.load(Relaxed),
        peak_growth: OP_PEAK_GROWTH.load(Relaxed),
        flagged,
    }
}

#[cold]
#[inline(never)]
fn over_bound(size: usize, by_growth: bool) {
    if IN_HOOK.swap(true, Relaxed) {
        return;
    }
    if FLAG_SIZE.load(Relaxed) == 0 {
        FLAG_SIZE.store(size.max(1), Relaxed);
        FLAG_GROWTH.store(by_growth, Relaxed);
        HARNESS_DEPTH.fetch_add(1, Relaxed);
        let frame = crate::monitor::innermost_physis_frame_now();
        let line = format!(
            "VERIF-ALLOC size={} growth={} frame={}\n",
            size, by_growth as u8, frame
        );
        unsafe {
            libc::write(2, line.as_ptr() as *const c_void, line.len());
            let p = &raw mut FLAG_FRAME;
            *p = Some(frame);
        }
        HARNESS_DEPTH.fetch_sub(1, Relaxed);
    }
    IN_HOOK.store(false, Relaxed);
}

/// Returns false if the request must be refused.
#[inline]
fn admit(size: usize) -> bool {
    if !OP_ACTIVE.load(Relaxed) || HARNESS_DEPTH.load(Relaxed) != 0 {
        return true;
    }
    if size > OP_MAX_REQ.load(Relaxed) {
        OP_MAX_REQ.store(size, Relaxed);
    }
    let bound = OP_BOUND.load(Relaxed);
    if size > bound {
        over_bound(size, false);
        return false;
    }
    let growth = (LIVE.load(Relaxed) as isize - OP_LIVE0.load(Relaxed) as isize)
        - (HARNESS_BYTES.load(Relaxed) as isize - OP_HB0.load(Relaxed) as isize)
        + size as isize;
    if growth > 0 {
        let g = growth as usize;
        if g > OP_PEAK_GROWTH.load(Relaxed) {
            OP_PEAK_GROWTH.store(g, Relaxed);
        }
        if g > bound {
            over_bound(g, true);
            return false;
        }
    }
    true
}

#[inline]
unsafe fn account_new(p: *mut c_void) {
    if !p.is_null() {
        LIVE.fetch_add(malloc_usable_size(p), Relaxed);
        ALLOCS.fetch_add(1, Relaxed);
    }
}

#[no_mangle]
pub unsafe extern "C" fn malloc(size: usize) -> *mut c_void {
    if !admit(size) {
        return std::ptr::null_mut();
    }
    let p = __libc_malloc(size);
    account_new(p);
    p
}

#[no_mangle]
pub unsafe extern "C" fn calloc(n: usize, size: usize) -> *mut c_void {
    if !admit(n.saturating_mul(size)) {
        return std::ptr::null_mut();
    }
    let p = __libc_calloc(n, size);
    account_new(p);
    p
}

#[no_mangle]
pub unsafe extern "C" fn realloc(old: *mut c_void, size: usize) -> *mut c_void {
    let old_sz = if old.is_null() { 0 } else { malloc_usable_size(old) };
    if size > old_sz && !admit(size - old_sz) {
        return std::ptr::null_mut();
    }
    let p = __libc_realloc(old, size);
    if !p.is_null() || size == 0 {
        LIVE.fetch_sub(old_sz, Relaxed);
        if !p.is_null() {
            LIVE.fetch_add(malloc_usable_size(p), Relaxed);
        }
    }
    p
}

#[no_mangle]
pub unsafe extern "C" fn free(p: *mut c_void) {
    if !p.is_null() {
        LIVE.fetch_sub(malloc_usable_size(p), Relaxed);
        __libc_free(p);
    }
}

#[no_mangle]
pub unsafe extern "C" fn memalign(align: usize, size: usize) -> *mut c_void {
    if !admit(size) {
        return std::ptr::null_mut();
    }
    let p = __libc_memalign(align, size);
    account_new(p);
    p
}

#[no_mangle]
pub unsafe extern "C" fn aligned_alloc(align: usize, size: usize) -> *mut c_void {
    memalign(align, size)
}

#[no_mangle]
pub unsafe extern "C" fn posix_memalign(out: *mut *mut c_void, align: usize, size: usize) -> i32 {
    if !admit(size) {
        return libc::ENOMEM;
    }
    let p = __libc_memalign(align, size);
    if p.is_null() {
        return libc::ENOMEM;
    }
    account_new(p);
    *out = p;
    0
}
