//! Self-tests that gate trust in the machinery (DESIGN 3.8). Exit 0 ok, 2 on any discrepancy
//! (a self-test failure is a harness error, never a VIOLATION).

use crate::harness::Tier;
use crate::props;
use crate::rng::Rng;
use crate::simfs::{Benign, SimFs};
use crate::supervisor::{run_batch, BatchSpec};
use physis::vfs::{Backend, OpenSpec};
use std::collections::BTreeMap;
use std::io::{Read, Seek, SeekFrom, Write};
use std::path::{Path, PathBuf};
use std::rc::Rc;

pub fn run(name: &str, prop: Option<&str>) -> i32 {
    match name {
        "determinism" => determinism(prop),
        "fidelity" => fidelity(),
        "models" => models(),
        _ => {
            eprintln!("HARNESS: unknown selftest {}", name);
            2
        }
    }
}

/// Every seed must give the same event-log hash, schedule hash and verdict whether the batch
/// runs on 1 worker or on 16, in different processes.
fn determinism(prop: Option<&str>) -> i32 {
    let list: Vec<&str> = match prop {
        Some(p) => vec![p],
        None => props::PROPS.to_vec(),
    };
    let seeds: u64 = std::env::var("VERIF_DET_SEEDS").ok().and_then(|s| s.parse().ok()).unwrap_or(2000);
    let base: u64 = std::env::var("VERIF_SEED").ok().and_then(|s| s.parse().ok()).unwrap_or(1);
    let mut bad = 0;
    for p in list {
        let mut maps = vec![];
        for workers in [1usize, 16, 5] {
            let directed = props::directed(p).len().min(300);
            let agg = run_batch(&BatchSpec {
                prop: p.to_string(),
                tier: Tier::Quick,
                base_seed: base,
                runs: seeds,
                workers,
                deadline: None,
                keep_per_seed: true,
                directed,
                known: vec![],
            });
            maps.push(agg.per_seed);
        }
        let mut diffs = 0;
        for (seed, v) in &maps[0] {
            for other in &maps[1..] {
                if other.get(seed) != Some(v) {
                    if diffs < 5 {
                        eprintln!("determinism: {} seed {} differs: {:?} vs {:?}", p, seed, v, other.get(seed));
                    }
                    diffs += 1;
                }
            }
        }
        if maps[0].len() != maps[1].len() || maps[0].len() != maps[2].len() {
            eprintln!("determinism: {} batches have different sizes", p);
            diffs += 1;
        }
        println!("determinism: {} — {} scenarios x 3 batches (1, 16 and 5 workers), {} differences", p, maps[0].len(), diffs);
        bad += diffs;
    }
    if bad > 0 {
        eprintln!("HARNESS: determinism self-test failed");
        return 2;
    }
    0
}

// ------------------------------------------------------------------------------------------
// fidelity: SimFs against the real file system, call by call
// ------------------------------------------------------------------------------------------

fn scratch_root(tag: &str) -> PathBuf {
    let exe = std::env::current_exe().expect("HARNESS: current_exe");
    let d = exe.parent().unwrap().join("run").join(format!("{}-{}", tag, std::process::id()));
    let _ = std::fs::remove_dir_all(&d);
    std::fs::create_dir_all(&d).expect("HARNESS: scratch dir");
    d
}

fn errno(e: &std::io::Error) -> String {
    match e.raw_os_error() {
        Some(c) => format!("errno {}", c),
        None => format!("{:?}", e.kind()),
    }
}

fn gen_path(r: &mut Rng) -> String {
    let names = ["a", "b", "c", "dd"];
    let depth = 1 + r.below(3) as usize;
    let mut parts: Vec<String> = vec![];
    for _ in 0..depth {
        parts.push(match r.below(14) {
            0 => ".".to_string(),
            1 => "..".to_string(),
            _ => r.pick(&names).to_string(),
        });
    }
    let mut p = parts.join(if r.chance(1, 10) { "//" } else { "/" });
    if r.chance(1, 10) {
        p.push('/');
    }
    p
}

fn real_snapshot(root: &Path, dir: &Path, out: &mut BTreeMap<String, Option<Vec<u8>>>) {
    if let Ok(rd) = std::fs::read_dir(dir) {
        for e in rd.flatten() {
            let p = e.path();
            let rel = p.strip_prefix(root).unwrap().to_string_lossy().to_string();
            if p.is_dir() {
                out.insert(rel, None);
                real_snapshot(root, &p, out);
            } else {
                out.insert(rel, std::fs::read(&p).ok());
            }
        }
    }
}

fn fidelity() -> i32 {
    let root = scratch_root("fid");
    let n_seq: u64 = std::env::var("VERIF_FID_SEQS").ok().and_then(|s| s.parse().ok()).unwrap_or(3000);
    let mut mismatches = 0u64;
    let mut ops_done = 0u64;
    let mut errors_compared = 0u64;
    for seq in 0..n_seq {
        let mut r = Rng::derive(seq, 0xF1D);
        let real_root = root.join(format!("s{}", seq));
        std::fs::create_dir_all(&real_root).unwrap();
        let fs: Rc<SimFs> = SimFs::new();
        fs.set_policy(Benign::quiet(), vec![]);
        fs.begin_op(0, seq, u64::MAX);
        let sim_root = "/r";
        fs.h_mkdirs(sim_root);
        let n_ops = 4 + r.below(14);
        let mut log: Vec<String> = vec![];
        for _ in 0..n_ops {
            let rel = gen_path(&mut r);
            // paths that climb out of the root are not comparable (the real root has parents)
            let mut depth: i32 = 0;
            let mut escapes = false;
            for c in rel.split('/').filter(|c| !c.is_empty()) {
                match c {
                    "." => {}
                    ".." => {
                        depth -= 1;
                        if depth < 0 {
                            escapes = true;
                        }
                    }
                    _ => depth += 1,
                }
            }
            if escapes {
                continue;
            }
            let sp = format!("{}/{}", sim_root, rel);
            let rp = real_root.join(&rel);
            // Path::join drops nothing here, but keep the textual form identical
            let rp = PathBuf::from(format!("{}/{}", real_root.display(), rel));
            let _ = &rp;
            ops_done += 1;
            let (a, b): (String, String) = match r.below(9) {
                0 | 1 | 2 => {
                    let spec = match r.below(6) {
                        0 => OpenSpec { read: true, write: false, create: false, truncate: false },
                        1 => OpenSpec { read: false, write: true, create: false, truncate: false },
                        2 => OpenSpec { read: false, write: true, create: true, truncate: false },
                        3 => OpenSpec { read: false, write: true, create: true, truncate: true },
                        4 => OpenSpec { read: true, write: true, create: false, truncate: false },
                        _ => OpenSpec { read: true, write: true, create: true, truncate: false },
                    };
                    let real = std::fs::OpenOptions::new().read(spec.read).write(spec.write).create(spec.create).truncate(spec.truncate).open(&rp);
                    let sim = fs.open(Path::new(&sp), &spec);
                    let mut ra = String::new();
                    let mut rb = String::new();
                    match (real, sim) {
                        (Ok(mut f), Ok(fd)) => {
                            ra.push_str("open ok;");
                            rb.push_str("open ok;");
                            for _ in 0..r.below(5) {
                                match r.below(5) {
                                    0 => {
                                        let n = r.below(40) as usize;
                                        let mut b1 = vec![0u8; n];
                                        let mut b2 = vec![0u8; n];
                                        let x = f.read(&mut b1);
                                        let y = fs.read(fd, &mut b2);
                                        ra.push_str(&format!("read {:?} {:?};", x.as_ref().map_err(errno), x.as_ref().map(|k| b1[..*k].to_vec()).ok()));
                                        rb.push_str(&format!("read {:?} {:?};", y.as_ref().map_err(errno), y.as_ref().map(|k| b2[..*k].to_vec()).ok()));
                                    }
                                    1 => {
                                        let data = crate::rng::fill_bytes(r.below(50) as usize, r.next_u64());
                                        let x = f.write(&data);
                                        let y = fs.write(fd, &data);
                                        ra.push_str(&format!("write {:?};", x.as_ref().map_err(errno)));
                                        rb.push_str(&format!("write {:?};", y.as_ref().map_err(errno)));
                                    }
                                    2 => {
                                        // positions relative to the "end" of a directory handle are file-system specific
                                        let pos = match if rp.is_dir() { 0 } else { r.below(4) } {
                                            0 => SeekFrom::Start(r.below(200)),
                                            1 => SeekFrom::Current(r.below(100) as i64 - 50),
                                            2 => SeekFrom::End(r.below(100) as i64 - 50),
                                            _ => SeekFrom::Current(0),
                                        };
                                        let x = f.seek(pos);
                                        let y = fs.seek(fd, pos);
                                        ra.push_str(&format!("seek {:?};", x.as_ref().map_err(errno)));
                                        rb.push_str(&format!("seek {:?};", y.as_ref().map_err(errno)));
                                    }
                                    3 => {
                                        let len = r.below(300);
                                        let x = f.set_len(len);
                                        let y = fs.set_len(fd, len);
                                        ra.push_str(&format!("set_len {:?};", x.as_ref().map_err(errno)));
                                        rb.push_str(&format!("set_len {:?};", y.as_ref().map_err(errno)));
                                    }
                                    _ => {
                                        let x = f.metadata().map(|m| m.len());
                                        ra.push_str(&format!("len {:?};", x.ok()));
                                        let y = fs.seek(fd, SeekFrom::Current(0)).and_then(|cur| {
                                            let end = fs.seek(fd, SeekFrom::End(0))?;
                                            fs.seek(fd, SeekFrom::Start(cur))?;
                                            Ok(end)
                                        });
                                        // a directory handle reports its own size on a real system
                                        if rp.is_dir() {
                                            rb.push_str(&format!("len {:?};", x_ok_dir(&rp)));
                                        } else {
                                            rb.push_str(&format!("len {:?};", y.ok()));
                                        }
                                    }
                                }
                            }
                            fs.close(fd);
                        }
                        (x, y) => {
                            ra = format!("open {:?}", x.as_ref().map(|_| ()).map_err(errno));
                            rb = format!("open {:?}", y.as_ref().map(|_| ()).map_err(errno));
                            if let Ok(fd) = y {
                                fs.close(fd);
                            }
                        }
                    }
                    (ra, rb)
                }
                3 => {
                    let x = std::fs::metadata(&rp).map(|m| (m.is_dir(), m.is_file(), if m.is_file() { m.len() } else { 0 }));
                    let y = fs.metadata(Path::new(&sp)).map(|m| (m.is_dir(), m.is_file(), if m.is_file() { m.len() } else { 0 }));
                    (format!("meta {:?}", x.map_err(|e| errno(&e))), format!("meta {:?}", y.map_err(|e| errno(&e))))
                }
                4 => {
                    let x = std::fs::read_dir(&rp).map(|rd| {
                        let mut v: Vec<(String, bool)> = rd.flatten().map(|e| (e.file_name().to_string_lossy().to_string(), e.path().is_dir())).collect();
                        v.sort();
                        v
                    });
                    let y = fs.read_dir(Path::new(&sp)).map(|v| {
                        let mut v: Vec<(String, bool)> = v.into_iter().map(|(n, m)| (n.to_string_lossy().to_string(), m.map(|m| m.is_dir()).unwrap_or(false))).collect();
                        v.sort();
                        v
                    });
                    (format!("ls {:?}", x.map_err(|e| errno(&e))), format!("ls {:?}", y.map_err(|e| errno(&e))))
                }
                5 | 6 => {
                    let x = std::fs::create_dir_all(&rp);
                    let y = fs.create_dir_all(Path::new(&sp));
                    (format!("mkdirs {:?}", x.map_err(|e| errno(&e))), format!("mkdirs {:?}", y.map_err(|e| errno(&e))))
                }
                7 => {
                    let x = std::fs::remove_file(&rp);
                    let y = fs.remove_file(Path::new(&sp));
                    (format!("rm {:?}", x.map_err(|e| errno(&e))), format!("rm {:?}", y.map_err(|e| errno(&e))))
                }
                _ => {
                    // never the root itself; a path ending in ".." is removed in a file-system
                    // specific way (physis never builds one for remove_dir_all)
                    if depth == 0 || rel.trim_end_matches('/').ends_with("..") {
                        continue;
                    }
                    let x = std::fs::remove_dir_all(&rp);
                    let y = fs.remove_dir_all(Path::new(&sp));
                    (format!("rmtree {:?}", x.map_err(|e| errno(&e))), format!("rmtree {:?}", y.map_err(|e| errno(&e))))
                }
            };
            if a.contains("Err") {
                errors_compared += 1;
            }
            log.push(format!("{} :: real[{}] sim[{}]", rel, a, b));
            if a != b {
                mismatches += 1;
                if mismatches <= 8 {
                    eprintln!("fidelity: sequence {} diverges:", seq);
                    for l in &log {
                        eprintln!("    {}", l);
                    }
                }
                break;
            }
        }
        // final trees
        let mut real_tree = BTreeMap::new();
        real_snapshot(&real_root, &real_root, &mut real_tree);
        let sim_tree = fs.snapshot(sim_root);
        if real_tree != sim_tree && mismatches <= 8 {
            mismatches += 1;
            eprintln!("fidelity: sequence {} final trees differ:\n  real {:?}\n  sim  {:?}", seq, real_tree.keys().collect::<Vec<_>>(), sim_tree.keys().collect::<Vec<_>>());
            for l in &log {
                eprintln!("    {}", l);
            }
        }
        fs.end_op();
        let _ = std::fs::remove_dir_all(&real_root);
    }
    println!(
        "fidelity: {} call sequences, {} calls compared with std::fs on the real file system ({} of them error results), {} mismatches",
        n_seq, ops_done, errors_compared, mismatches
    );
    // end to end: the same fault-free scenarios through physis on the real file system
    let e2e = fidelity_end_to_end(&root);
    let _ = std::fs::remove_dir_all(&root);
    if mismatches > 0 || e2e > 0 {
        eprintln!("HARNESS: fidelity self-test failed");
        return 2;
    }
    0
}

fn x_ok_dir(p: &Path) -> Option<u64> {
    std::fs::metadata(p).map(|m| m.len()).ok()
}

/// C04 and C03 scenarios executed by physis on the real file system (no backend installed):
/// the verdict of the oracles must be the same as on SimFs (no violation) and the resulting
/// trees identical.
fn fidelity_end_to_end(root: &Path) -> u64 {
    use crate::props::{c03, c04, Body};
    let mut bad = 0u64;
    let mut done = 0u64;
    let n: u64 = std::env::var("VERIF_FID_E2E").ok().and_then(|s| s.parse().ok()).unwrap_or(150);
    physis::vfs::set_backend(None);
    for seed in 1..=n {
        // C04
        let doc = c04::generate(seed, Tier::Quick);
        if let Body::C04(b) = &doc.body {
            let r = root.join(format!("c04-{}", seed));
            let (a, bb, t) = (r.join("a"), r.join("b"), r.join("t"));
            for d in [&a, &bb, &t] {
                std::fs::create_dir_all(d).unwrap();
            }
            let put = |base: &Path, rel: &str, data: &[u8]| {
                let p = base.join(rel);
                std::fs::create_dir_all(p.parent().unwrap()).unwrap();
                std::fs::write(p, data).unwrap();
            };
            for e in &b.a {
                put(&a, &e.path, &e.data.get());
                put(&t, &e.path, &e.data.get());
            }
            for e in &b.b {
                put(&bb, &e.path, &e.data.get());
            }
            let patch = physis::patch::ZiPatch::create(a.to_str().unwrap(), bb.to_str().unwrap());
            match patch {
                Some(p) => {
                    let pp = r.join("test.patch");
                    std::fs::write(&pp, &p).unwrap();
                    let res = physis::patch::ZiPatch::apply(t.to_str().unwrap(), pp.to_str().unwrap());
                    let mut got = BTreeMap::new();
                    real_snapshot(&t, &t, &mut got);
                    let got_files: BTreeMap<String, Vec<u8>> = got.into_iter().filter_map(|(k, v)| v.map(|v| (k, v))).collect();
                    let want: BTreeMap<String, Vec<u8>> = b.b.iter().map(|e| (e.path.clone(), e.data.get())).collect();
                    // the simulated run of the same document
                    let sim = props::run_doc(&crate::props::Doc { benign: Benign::quiet(), cfg: crate::harness::Cfg::Quiet, ..doc.clone() }, false);
                    let real_ok = res.is_ok() && got_files == want;
                    if real_ok != sim.violation.is_none() {
                        eprintln!("fidelity(e2e): C04 seed {}: real file system verdict ok={} but simulated verdict {:?}", seed, real_ok, sim.violation);
                        bad += 1;
                    }
                }
                None => {
                    eprintln!("fidelity(e2e): C04 seed {}: create returned None on the real file system", seed);
                    bad += 1;
                }
            }
            done += 1;
            let _ = std::fs::remove_dir_all(&r);
        }
        // C03
        let doc = c03::generate(seed, Tier::Quick);
        if let Body::C03(b) = &doc.body {
            if b.via != c03::Via::Direct {
                continue;
            }
            let r = root.join(format!("c03-{}", seed));
            let data = r.join("data");
            std::fs::create_dir_all(&data).unwrap();
            for d in &b.pre_dirs {
                std::fs::create_dir_all(data.join(d)).unwrap();
            }
            for e in &b.pre {
                let p = data.join(&e.path);
                std::fs::create_dir_all(p.parent().unwrap()).unwrap();
                std::fs::write(p, e.data.get()).unwrap();
            }
            let mut model = c03::initial_model(&b.pre, &b.pre_dirs);
            let mut ok = true;
            for (pi, chunks) in b.patches.iter().enumerate() {
                let enc = crate::formats::zipatch::encode_patch(chunks);
                let pp = r.join(format!("p{}.patch", pi));
                std::fs::write(&pp, &enc.bytes).unwrap();
                for c in chunks {
                    model.apply(c);
                    model.settle();
                }
                if physis::patch::ZiPatch::apply(data.to_str().unwrap(), pp.to_str().unwrap()).is_err() {
                    ok = false;
                    break;
                }
            }
            let mut got = BTreeMap::new();
            real_snapshot(&data, &data, &mut got);
            let got_files: BTreeMap<String, Vec<u8>> = got.iter().filter_map(|(k, v)| v.clone().map(|v| (k.clone(), v))).collect();
            let real_ok = ok && got_files == model.files;
            let sim = props::run_doc(&crate::props::Doc { benign: Benign::quiet(), cfg: crate::harness::Cfg::Quiet, ..doc.clone() }, false);
            if real_ok != sim.violation.is_none() {
                eprintln!("fidelity(e2e): C03 seed {}: real file system verdict ok={} but simulated verdict {:?}", seed, real_ok, sim.violation);
                bad += 1;
            }
            done += 1;
            let _ = std::fs::remove_dir_all(&r);
        }
    }
    println!("fidelity(e2e): {} C04/C03 scenarios executed by physis on the real file system and on SimFs, {} verdict differences", done, bad);
    bad
}

fn models() -> i32 {
    use crate::formats::*;
    let mut bad = 0;
    if crc32(b"123456789") != 0xCBF43926 || jamcrc(b"123456789") != 0x340BC6D9 {
        eprintln!("models: CRC vectors fail");
        bad += 1;
    }
    if hex(&sha1(b"abc")) != "a9993e364706816aba3e25717850c26c9cd0d89d" {
        eprintln!("models: SHA-1 vector fails");
        bad += 1;
    }
    for n in [0usize, 1, 5, 143, 144, 300, 16000, 70000] {
        let d = crate::rng::fill_bytes(n, n as u64);
        for m in [Mode::Stored, Mode::Fixed, Mode::Miniz(1), Mode::Miniz(6)] {
            let c = deflate(&d, m);
            match miniz_oxide::inflate::decompress_to_vec(&c) {
                Ok(back) if back == d => {}
                _ => {
                    eprintln!("models: deflate round trip fails for {} bytes under {:?}", n, m);
                    bad += 1;
                }
            }
        }
    }
    // generators stay inside their constrained spaces
    for seed in 1..2000u64 {
        let _ = props::generate("C03", seed, Tier::Quick);
    }
    println!("models: CRC-32/JAMCRC/SHA-1 vectors, deflate encoders against miniz inflate, C03 generator well-formedness: {} failures", bad);
    if bad > 0 {
        2
    } else {
        0
    }
}
