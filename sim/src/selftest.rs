//! Self-tests that gate trust in the machinery (DESIGN 3.8).

pub fn run(name: &str, _prop: Option<&str>) -> i32 {
    eprintln!("HARNESS: selftest {} not built yet", name);
    2
}
