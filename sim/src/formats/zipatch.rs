//! Independent ZiPatch chunk writer and executable reference semantics (DESIGN Appendix B).
//! Written from the public format description and the XIVLauncher reference, not from patch.rs.

use super::{crc32, deflate, Bytes, Enc, Field, Mode};
use serde::{Deserialize, Serialize};
use std::collections::{BTreeMap, BTreeSet};

pub const MAGIC: [u8; 12] = [0x91, 0x5A, 0x49, 0x50, 0x41, 0x54, 0x43, 0x48, 0x0D, 0x0A, 0x1A, 0x0A];

#[derive(Clone, Debug, PartialEq, Eq, Serialize, Deserialize)]
pub struct FileBlock {
    pub data: Bytes,
    pub mode: Mode,
}

#[derive(Clone, Debug, PartialEq, Eq, Serialize, Deserialize)]
pub enum Chunk {
    Fhdr2 { kind: String, entry_files: u32 },
    Fhdr3 { kind: String, counters: Vec<u32> },
    Aply { option: u32, value: u32 },
    Adir { name: String },
    Deld { name: String },
    Target { platform: u16, region: i16, debug: bool, version: u16, deleted: u64, seek: u64 },
    PatchInfo { status: u8, version: u8, install_size: u64 },
    Index { add: bool, synonym: bool, hash: u64, block_offset: u32, block_number: u32 },
    AddData { main: u16, sub: u16, file: u32, block_offset: u32, data: Bytes, delete_blocks: u32 },
    DeleteData { main: u16, sub: u16, file: u32, block_offset: u32, blocks: u32 },
    ExpandData { main: u16, sub: u16, file: u32, block_offset: u32, blocks: u32 },
    HeaderUpdate { index: bool, kind: char, main: u16, sub: u16, file: u32, data: Bytes },
    AddFile { path: String, offset: u64, expansion: u16, blocks: Vec<FileBlock> },
    DeleteFile { path: String, expansion: u16 },
    RemoveAll { expansion: u16 },
    MakeDirTree { path: String, expansion: u16 },
    Eof,
}

impl Chunk {
    pub fn kind_name(&self) -> &'static str {
        match self {
            Chunk::Fhdr2 { .. } => "FHDR2",
            Chunk::Fhdr3 { .. } => "FHDR3",
            Chunk::Aply { .. } => "APLY",
            Chunk::Adir { .. } => "ADIR",
            Chunk::Deld { .. } => "DELD",
            Chunk::Target { .. } => "T",
            Chunk::PatchInfo { .. } => "X",
            Chunk::Index { .. } => "I",
            Chunk::AddData { .. } => "A",
            Chunk::DeleteData { .. } => "D",
            Chunk::ExpandData { .. } => "E",
            Chunk::HeaderUpdate { .. } => "H",
            Chunk::AddFile { .. } => "F-A",
            Chunk::DeleteFile { .. } => "F-D",
            Chunk::RemoveAll { .. } => "F-R",
            Chunk::MakeDirTree { .. } => "F-M",
            Chunk::Eof => "EOF",
        }
    }
}

pub const KIND_NAMES: [&str; 17] = [
    "FHDR2", "FHDR3", "APLY", "ADIR", "DELD", "T", "X", "I", "A", "D", "E", "H", "F-A", "F-D", "F-R",
    "F-M", "EOF",
];

/// One stored file block: {16, 0, stored|32000, raw}, payload, zero pad to a multiple of 128.
pub fn encode_file_block(e: &mut Enc, b: &FileBlock) {
    let raw = b.data.get();
    let start = e.pos();
    e.u32le("fblock.header_size", 16);
    e.u32le("", 0);
    match b.mode {
        Mode::Raw => {
            e.u32le("fblock.stored_len", 32000);
            e.u32le("fblock.raw_len", raw.len() as u32);
            e.bytes(&raw);
        }
        m => {
            let c = deflate(&raw, m);
            assert!(c.len() < 32000, "HARNESS: compressed block too large for the format");
            e.u32le("fblock.stored_len", c.len() as u32);
            e.u32le("fblock.raw_len", raw.len() as u32);
            e.mark("fblock.payload", c.len().min(8), false);
            e.bytes(&c);
        }
    }
    let len = e.pos() - start;
    let padded = (len + 127) & !127;
    e.zeros(padded - len);
}

fn sqpk(e: &mut Enc, cmd: u8, body: impl FnOnce(&mut Enc)) {
    // outer chunk: size, "SQPK", payload {inner size, cmd, body}, crc
    let size_at = e.pos();
    e.u32be("chunk.size", 0);
    let type_at = e.pos();
    e.bytes(b"SQPK");
    let inner_at = e.pos();
    e.u32be("sqpk.size", 0);
    e.u8("sqpk.cmd", cmd);
    body(e);
    let payload_len = e.pos() - inner_at;
    e.patch_u32be(size_at, payload_len as u32);
    e.patch_u32be(inner_at, payload_len as u32);
    let crc = crc32(&e.buf[type_at..]);
    e.u32be("chunk.crc", crc);
}

fn plain(e: &mut Enc, ty: &[u8; 4], body: impl FnOnce(&mut Enc)) {
    let size_at = e.pos();
    e.u32be("chunk.size", 0);
    let type_at = e.pos();
    e.bytes(ty);
    let payload_at = e.pos();
    body(e);
    let payload_len = e.pos() - payload_at;
    e.patch_u32be(size_at, payload_len as u32);
    let crc = crc32(&e.buf[type_at..]);
    e.u32be("chunk.crc", crc);
}

fn name4(s: &str) -> [u8; 4] {
    let mut out = [0u8; 4];
    for (i, b) in s.bytes().take(4).enumerate() {
        out[i] = b;
    }
    out
}

pub fn encode_chunk(e: &mut Enc, c: &Chunk) {
    match c {
        Chunk::Fhdr2 { kind, entry_files } => plain(e, b"FHDR", |e| {
            e.bytes(&[0, 0]);
            e.u8("fhdr.version", 2);
            e.u8("", 0);
            e.bytes(&name4(kind));
            e.u32be("fhdr.entry_files", *entry_files);
            e.zeros(8);
        }),
        Chunk::Fhdr3 { kind, counters } => plain(e, b"FHDR", |e| {
            e.bytes(&[0, 0]);
            e.u8("fhdr.version", 3);
            e.u8("", 0);
            e.bytes(&name4(kind));
            for i in 0..13 {
                e.u32be("", counters.get(i).copied().unwrap_or(0));
            }
            e.zeros(0xB8);
        }),
        Chunk::Aply { option, value } => plain(e, b"APLY", |e| {
            e.u32be("aply.option", *option);
            e.zeros(4);
            e.u32be("aply.value", *value);
        }),
        Chunk::Adir { name } => plain(e, b"ADIR", |e| {
            e.u32be("dir.name_len", name.len() as u32);
            e.mark("dir.name", name.len().min(8), false);
            e.bytes(name.as_bytes());
        }),
        Chunk::Deld { name } => plain(e, b"DELD", |e| {
            e.u32be("dir.name_len", name.len() as u32);
            e.mark("dir.name", name.len().min(8), false);
            e.bytes(name.as_bytes());
        }),
        Chunk::Target { platform, region, debug, version, deleted, seek } => sqpk(e, b'T', |e| {
            e.zeros(3);
            e.u16be("target.platform", *platform);
            e.u16be("target.region", *region as u16);
            e.u16be("target.debug", *debug as u16);
            e.u16be("target.version", *version);
            e.u64le("target.deleted", *deleted);
            e.u64le("target.seek", *seek);
            e.zeros(96);
        }),
        Chunk::PatchInfo { status, version, install_size } => sqpk(e, b'X', |e| {
            e.u8("", *status);
            e.u8("", *version);
            e.u8("", 0);
            e.u64be("", *install_size);
        }),
        Chunk::Index { add, synonym, hash, block_offset, block_number } => sqpk(e, b'I', |e| {
            e.u8("index.cmd", if *add { b'A' } else { b'D' });
            e.u8("", *synonym as u8);
            e.u8("", 0);
            e.u64be("", *hash);
            e.u32be("", *block_offset);
            e.u32be("", *block_number);
            e.zeros(8);
        }),
        Chunk::AddData { main, sub, file, block_offset, data, delete_blocks } => sqpk(e, b'A', |e| {
            let d = data.get();
            assert!(d.len() % 128 == 0, "HARNESS: AddData payload must be whole blocks");
            e.zeros(3);
            e.u16be("add.main", *main);
            e.u16be("add.sub", *sub);
            e.u32be("add.file", *file);
            e.u32be("add.block_offset", *block_offset);
            e.u32be("add.block_number", (d.len() / 128) as u32);
            e.u32be("add.block_delete", *delete_blocks);
            e.bytes(&d);
        }),
        Chunk::DeleteData { main, sub, file, block_offset, blocks } => sqpk(e, b'D', |e| {
            e.zeros(3);
            e.u16be("del.main", *main);
            e.u16be("del.sub", *sub);
            e.u32be("del.file", *file);
            e.u32be("del.block_offset", *block_offset);
            e.u32be("del.block_number", *blocks);
            e.zeros(4);
        }),
        Chunk::ExpandData { main, sub, file, block_offset, blocks } => sqpk(e, b'E', |e| {
            e.zeros(3);
            e.u16be("exp.main", *main);
            e.u16be("exp.sub", *sub);
            e.u32be("exp.file", *file);
            e.u32be("exp.block_offset", *block_offset);
            e.u32be("exp.block_number", *blocks);
            e.zeros(4);
        }),
        Chunk::HeaderUpdate { index, kind, main, sub, file, data } => sqpk(e, b'H', |e| {
            let d = data.get();
            assert!(d.len() == 1024, "HARNESS: header update carries 1024 bytes");
            e.u8("hdr.file_kind", if *index { b'I' } else { b'D' });
            e.u8("hdr.header_kind", *kind as u8);
            e.u8("", 0);
            e.u16be("hdr.main", *main);
            e.u16be("hdr.sub", *sub);
            e.u32be("hdr.file", *file);
            e.bytes(&d);
        }),
        Chunk::AddFile { path, offset, expansion, blocks } => sqpk(e, b'F', |e| {
            let total: usize = blocks.iter().map(|b| b.data.len()).sum();
            file_op_head(e, b'A', *offset, total as u64, path, *expansion);
            for b in blocks {
                encode_file_block(e, b);
            }
        }),
        Chunk::DeleteFile { path, expansion } => sqpk(e, b'F', |e| {
            file_op_head(e, b'D', 0, 0, path, *expansion);
        }),
        Chunk::RemoveAll { expansion } => sqpk(e, b'F', |e| {
            file_op_head(e, b'R', 0, 0, "", *expansion);
        }),
        Chunk::MakeDirTree { path, expansion } => sqpk(e, b'F', |e| {
            file_op_head(e, b'M', 0, 0, path, *expansion);
        }),
        Chunk::Eof => {
            e.u32be("chunk.size", 0);
            e.bytes(b"EOF_");
            let crc = crc32(b"EOF_");
            e.u32be("chunk.crc", crc);
        }
    }
}

fn file_op_head(e: &mut Enc, op: u8, offset: u64, size: u64, path: &str, expansion: u16) {
    e.u8("fop.op", op);
    e.zeros(2);
    e.u64be("fop.offset", offset);
    e.u64be("fop.size", size);
    e.u32be("fop.path_len", path.len() as u32 + 1);
    e.u16be("fop.expansion", expansion);
    e.zeros(2);
    e.mark("fop.path", path.len().min(8), false);
    e.bytes(path.as_bytes());
    e.u8("fop.path_nul", 0);
}

pub struct Encoded {
    pub bytes: Vec<u8>,
    pub fields: Vec<Field>,
    /// byte offset where chunk i starts; last element = total length
    pub boundaries: Vec<usize>,
}

pub fn encode_patch(chunks: &[Chunk]) -> Encoded {
    let mut e = Enc::new();
    e.bytes(&MAGIC);
    let mut boundaries = vec![];
    for (i, c) in chunks.iter().enumerate() {
        boundaries.push(e.pos());
        e.set_prefix(&format!("c{}.", i));
        encode_chunk(&mut e, c);
    }
    boundaries.push(e.pos());
    Encoded { bytes: e.buf, fields: e.fields, boundaries }
}

// ---------------------------------------------------------------------------------------------
// Reference semantics
// ---------------------------------------------------------------------------------------------

#[derive(Clone, Debug, Default, PartialEq, Eq)]
pub struct ModelTree {
    /// relative path -> content
    pub files: BTreeMap<String, Vec<u8>>,
    /// relative directory paths that must exist
    pub dirs: BTreeSet<String>,
    /// directory paths whose existence the references disagree on: not compared
    pub unconstrained: BTreeSet<String>,
    /// repository directories emptied by F-R: existence not compared until something re-creates them
    pub removed_dirs: BTreeSet<String>,
    /// every path the model touched (for the "nothing else changes" check)
    pub touched: BTreeSet<String>,
    pub platform: u16,
    /// a command needed a directory where a regular file sits, or a write reaches beyond the
    /// largest file the simulated disk holds: the reference fails there
    pub blocked: bool,
}

pub fn platform_tag(p: u16) -> &'static str {
    match p {
        0 => "win32",
        1 => "ps3",
        2 => "ps4",
        3 => "ps5",
        4 => "lys",
        _ => "unknown",
    }
}

pub fn expansion_folder(id: u16) -> String {
    if id == 0 {
        "ffxiv".to_string()
    } else {
        format!("ex{}", id)
    }
}

pub fn dat_name(platform: u16, main: u16, sub: u16, file: u32) -> String {
    format!(
        "sqpack/{}/{:02x}{:04x}.{}.dat{}",
        expansion_folder(sub >> 8),
        main,
        sub,
        platform_tag(platform),
        file
    )
}

pub fn index_name(platform: u16, main: u16, sub: u16, file: u32) -> String {
    let mut s = format!(
        "sqpack/{}/{:02x}{:04x}.{}.index",
        expansion_folder(sub >> 8),
        main,
        sub,
        platform_tag(platform)
    );
    if file != 0 {
        s += &file.to_string();
    }
    s
}

fn norm(path: &str) -> String {
    path.split('/').filter(|c| !c.is_empty()).collect::<Vec<_>>().join("/")
}

impl ModelTree {
    pub fn add_dir_chain(&mut self, dir: &str) {
        let mut cur = String::new();
        for c in dir.split('/').filter(|c| !c.is_empty()) {
            if !cur.is_empty() {
                cur.push('/');
            }
            cur.push_str(c);
            if self.files.contains_key(&cur) {
                self.blocked = true;
            }
            self.dirs.insert(cur.clone());
        }
    }

    fn parent(path: &str) -> &str {
        match path.rfind('/') {
            Some(p) => &path[..p],
            None => "",
        }
    }

    fn write_at(&mut self, path: &str, offset: usize, data: &[u8]) {
        self.add_dir_chain(Self::parent(path));
        self.files.entry(path.to_string()).or_default();
        self.touched.insert(path.to_string());
        if data.is_empty() {
            // seeking past the end without writing does not extend a file
            return;
        }
        if (offset as u64).saturating_add(data.len() as u64) > crate::simfs::MAX_FILE {
            // the simulated disk refuses a file this large (ENOSPC): the reference fails here
            self.blocked = true;
            return;
        }
        let f = self.files.get_mut(path).unwrap();
        if f.len() < offset + data.len() {
            f.resize(offset + data.len(), 0);
        }
        f[offset..offset + data.len()].copy_from_slice(data);
        self.touched.insert(path.to_string());
    }

    fn ensure_file(&mut self, path: &str) {
        self.add_dir_chain(Self::parent(path));
        self.files.entry(path.to_string()).or_default();
        self.touched.insert(path.to_string());
    }

    pub fn apply(&mut self, c: &Chunk) {
        match c {
            Chunk::Fhdr2 { .. }
            | Chunk::Fhdr3 { .. }
            | Chunk::Aply { .. }
            | Chunk::PatchInfo { .. }
            | Chunk::Index { .. }
            | Chunk::Eof => {}
            Chunk::Adir { name } | Chunk::Deld { name } => {
                self.unconstrained.insert(norm(name));
            }
            Chunk::Target { platform, .. } => self.platform = *platform,
            Chunk::AddData { main, sub, file, block_offset, data, delete_blocks } => {
                let p = dat_name(self.platform, *main, *sub, *file);
                let d = data.get();
                let off = (*block_offset as usize) << 7;
                self.ensure_file(&p);
                self.write_at(&p, off, &d);
                let z = vec![0u8; (*delete_blocks as usize) << 7];
                self.write_at(&p, off + d.len(), &z);
            }
            Chunk::DeleteData { main, sub, file, block_offset, blocks }
            | Chunk::ExpandData { main, sub, file, block_offset, blocks } => {
                let p = dat_name(self.platform, *main, *sub, *file);
                let off = (*block_offset as usize) << 7;
                self.ensure_file(&p);
                let z = vec![0u8; (*blocks as usize) << 7];
                self.write_at(&p, off, &z);
                let mut h = Vec::new();
                for w in [128u32, 0, 0, blocks.wrapping_sub(1), 0] {
                    h.extend_from_slice(&w.to_le_bytes());
                }
                self.write_at(&p, off, &h);
            }
            Chunk::HeaderUpdate { index, kind, main, sub, file, data } => {
                let p = if *index {
                    index_name(self.platform, *main, *sub, *file)
                } else {
                    dat_name(self.platform, *main, *sub, *file)
                };
                let off = if *kind == 'V' { 0 } else { 1024 };
                self.ensure_file(&p);
                self.write_at(&p, off, &data.get());
            }
            Chunk::AddFile { path, offset, blocks, .. } => {
                let p = norm(path);
                let mut d = Vec::new();
                for b in blocks {
                    d.extend_from_slice(&b.data.get());
                }
                self.ensure_file(&p);
                if *offset == 0 {
                    self.files.insert(p.clone(), Vec::new());
                }
                self.write_at(&p, *offset as usize, &d);
            }
            Chunk::DeleteFile { path, .. } => {
                let p = norm(path);
                self.files.remove(&p);
                self.touched.insert(p);
            }
            Chunk::RemoveAll { expansion } => {
                let dir = format!("sqpack/{}", expansion_folder(*expansion));
                let prefix = format!("{}/", dir);
                let doomed: Vec<String> = self
                    .files
                    .keys()
                    .filter(|k| k.starts_with(&prefix) && !k[prefix.len()..].contains('/'))
                    .cloned()
                    .collect();
                for k in doomed {
                    self.files.remove(&k);
                    self.touched.insert(k);
                }
                // the references disagree on whether the directory itself survives
                if self.dirs.remove(&dir) {
                    self.removed_dirs.insert(dir.clone());
                }
                self.touched.insert(dir);
            }
            Chunk::MakeDirTree { path, .. } => {
                let p = norm(path);
                if path.ends_with('/') {
                    self.add_dir_chain(&p);
                } else {
                    self.add_dir_chain(Self::parent(&p));
                    if !self.dirs.contains(&p) {
                        self.unconstrained.insert(p.clone());
                    }
                }
                self.touched.insert(p);
            }
        }
    }

    /// A directory that a later command certainly creates stops being unconstrained.
    pub fn settle(&mut self) {
        let settled: Vec<String> = self.unconstrained.iter().filter(|d| self.dirs.contains(*d)).cloned().collect();
        for d in settled {
            self.unconstrained.remove(&d);
        }
        let back: Vec<String> = self.removed_dirs.iter().filter(|d| self.dirs.contains(*d)).cloned().collect();
        for d in back {
            self.removed_dirs.remove(&d);
        }
    }
}
