//! Independent SqPack archive writer (DESIGN Appendix A): index / index2 files and dat entries
//! (standard, texture, model), laid out field by field from the public format description.

use super::{deflate, jamcrc, sha1, Bytes, Enc, Field, Mode};
use serde::{Deserialize, Serialize};

pub const CATEGORIES: [(&str, u8); 15] = [
    ("common", 0x00),
    ("bgcommon", 0x01),
    ("bg", 0x02),
    ("cut", 0x03),
    ("chara", 0x04),
    ("shader", 0x05),
    ("ui", 0x06),
    ("sound", 0x07),
    ("vfx", 0x08),
    ("ui_script", 0x09),
    ("exd", 0x0a),
    ("game_script", 0x0b),
    ("music", 0x0c),
    ("sqpack_test", 0x12),
    ("debug", 0x13),
];

pub const PLATFORMS: [&str; 5] = ["win32", "ps3", "ps4", "ps5", "lys"];

pub fn category_id(name: &str) -> Option<u8> {
    CATEGORIES.iter().find(|(n, _)| *n == name).map(|(_, i)| *i)
}

pub fn repo_folder(exp: u8) -> String {
    if exp == 0 {
        "ffxiv".into()
    } else {
        format!("ex{}", exp)
    }
}

/// `{category:02x}{expansion:02}{chunk:02}.{platform}` — the common stem of index and dat names.
pub fn file_stem(cat: u8, exp: u8, chunk: u8, platform: u8) -> String {
    format!("{:02x}{:02}{:02}.{}", cat, exp, chunk, PLATFORMS[platform as usize])
}

pub fn sqpack_header(platform: u8, file_type: u32) -> Vec<u8> {
    let mut e = Enc::new();
    e.bytes(b"SqPack\0\0");
    e.u8("", platform);
    e.zeros(3);
    e.u32le("", 0x400);
    e.u32le("", 1);
    e.u32le("", file_type);
    e.u32le("", 20230101);
    e.u32le("", 1200);
    e.u32le("", 0xFFFF_FFFF); // region -1
    e.zeros(0x3C0 - e.pos());
    let h = sha1(&e.buf[..0x3C0]);
    e.bytes(&h);
    e.zeros(0x400 - e.pos());
    e.buf
}

pub fn split_hash(path_lower: &str) -> (u32, u32) {
    let pos = path_lower.rfind('/').expect("HARNESS: path without a folder");
    let folder = &path_lower[..pos];
    let name = &path_lower[pos + 1..];
    (jamcrc(name.as_bytes()), jamcrc(folder.as_bytes()))
}

pub fn full_hash(path_lower: &str) -> u32 {
    jamcrc(path_lower.as_bytes())
}

pub fn entry_word(dat_id: u8, offset: u64) -> u32 {
    debug_assert!(offset % 128 == 0);
    (((offset / 128) as u32) << 4) | ((dat_id as u32 & 7) << 1)
}

#[derive(Clone, Debug, PartialEq, Eq, Serialize, Deserialize)]
pub struct IndexEntrySpec {
    /// lower-case path
    pub path: String,
    pub dat_id: u8,
    pub offset: u64,
}

pub struct EncodedFile {
    pub bytes: Vec<u8>,
    pub fields: Vec<Field>,
    /// structure boundaries for truncation faults
    pub boundaries: Vec<usize>,
}

/// Writes an index (16-byte entries keyed by folder/name hash) or index2 (8-byte entries keyed by
/// the whole-path hash) file.
pub fn encode_index(
    platform: u8,
    index2: bool,
    entries: &[IndexEntrySpec],
    dat_count: u32,
    populate_secondary: bool,
    table_order: u8,
) -> EncodedFile {
    let mut e = Enc::new();
    let mut boundaries = vec![];
    e.bytes(&sqpack_header(platform, 2));
    boundaries.push(e.pos());
    let h = e.pos(); // 0x400
    let entry_size = if index2 { 8 } else { 16 };
    let table_off = 0x800u32;
    let table_size = (entries.len() * entry_size) as u32;
    let syn_off = table_off + table_size;
    let syn_size: u32 = if populate_secondary { 256 } else { 0 };
    let empty_off = syn_off + syn_size;
    let empty_size: u32 = if populate_secondary { 256 } else { 0 };
    let dir_off = empty_off + empty_size;
    // folder table of an .index file: one entry per folder hash, naming the run of file entries
    // of that folder (only a table sorted by key keeps a folder's files together; the other
    // orders carry two entries for folders that hold nothing)
    let folders: Vec<(u32, u32, u32)> = if populate_secondary && !index2 {
        if table_order == 1 {
            vec![(0x1000, table_off, 16), (0x1001, table_off, 16)]
        } else {
            let mut keys: Vec<u64> = entries
                .iter()
                .map(|s| {
                    let (name, folder) = split_hash(&s.path);
                    ((folder as u64) << 32) | name as u64
                })
                .collect();
            keys.sort();
            if table_order == 2 {
                keys.reverse();
            }
            let mut out: Vec<(u32, u32, u32)> = vec![];
            for (i, k) in keys.iter().enumerate() {
                let f = (*k >> 32) as u32;
                match out.last_mut() {
                    Some(last) if last.0 == f => last.2 += 16,
                    _ => out.push((f, table_off + 16 * i as u32, 16)),
                }
            }
            out
        }
    } else {
        vec![]
    };
    let dir_size: u32 = 16 * folders.len() as u32;

    e.u32le("ih.size", 0x400);
    e.u32le("ih.version", 1);
    e.u32le("ih.table_off", table_off);
    e.u32le("ih.table_size", table_size);
    e.zeros(64);
    e.u32le("ih.dat_count", dat_count);
    e.u32le("ih.syn_off", syn_off);
    e.u32le("ih.syn_size", syn_size);
    e.zeros(64);
    e.u32le("ih.empty_off", empty_off);
    e.u32le("ih.empty_size", empty_size);
    e.zeros(64);
    e.u32le("ih.dir_off", dir_off);
    e.u32le("ih.dir_size", dir_size);
    e.zeros(64);
    debug_assert_eq!(e.pos() - h, 0x12C);
    e.u32le("ih.index_type", if index2 { 2 } else { 0 });
    // Intersection policy (Appendix A): physis reads the type byte 4 bytes earlier, in what the
    // public layout calls the unused tail of the directory-segment hash field.
    e.buf[h + 0x128] = if index2 { 1 } else { 0 };
    e.zeros(656);
    e.zeros(64);
    debug_assert_eq!(e.pos(), 0x800);
    boundaries.push(e.pos());

    // entry table: sorted by key as the game's writer does (0), in the order the entries were
    // added (1: what a repacking tool that appends produces) or in descending key order (2). The
    // statement speaks of an index that *contains* the hash; it promises no order.
    let mut rows: Vec<(u64, u32)> = entries
        .iter()
        .map(|s| {
            let key = if index2 {
                full_hash(&s.path) as u64
            } else {
                let (name, folder) = split_hash(&s.path);
                ((folder as u64) << 32) | name as u64
            };
            (key, entry_word(s.dat_id, s.offset))
        })
        .collect();
    match table_order {
        0 => rows.sort(),
        2 => {
            rows.sort();
            rows.reverse();
        }
        _ => {}
    }
    for (i, (key, word)) in rows.iter().enumerate() {
        e.set_prefix(&format!("e{}.", i));
        if index2 {
            e.u32le("hash", *key as u32);
            e.u32le("data", *word);
        } else {
            e.u32le("name_hash", *key as u32);
            e.u32le("folder_hash", (*key >> 32) as u32);
            e.u32le("data", *word);
            e.u32le("", 0);
        }
    }
    e.set_prefix("");
    boundaries.push(e.pos());
    if syn_size > 0 {
        e.buf.extend(std::iter::repeat(0xFF).take(syn_size as usize));
    }
    if empty_size > 0 {
        e.buf.extend(std::iter::repeat(0xFF).take(empty_size as usize));
    }
    for (k, (hash, off, size)) in folders.iter().enumerate() {
        e.set_prefix(&format!("d{}.", k));
        e.u32le("folder_hash", *hash);
        e.u32le("files_off", *off);
        e.u32le("files_size", *size);
        e.u32le("", 0);
    }
    e.set_prefix("");
    boundaries.push(e.pos());
    EncodedFile { bytes: e.buf, fields: e.fields, boundaries }
}

#[derive(Clone, Debug, PartialEq, Eq, Serialize, Deserialize)]
pub struct BlockSpec {
    pub len: usize,
    pub mode: Mode,
}

/// One dat block: {16, 0, stored|32000, raw}, payload, zero pad to 128. Returns stored size.
pub fn encode_block(e: &mut Enc, raw: &[u8], mode: Mode) -> (usize, u8) {
    let start = e.pos();
    e.u32le("blk.header_size", 16);
    e.u32le("", 0);
    let mut btype = 3u8;
    match mode {
        Mode::Raw => {
            e.u32le("blk.stored_len", 32000);
            e.u32le("blk.raw_len", raw.len() as u32);
            e.bytes(raw);
        }
        m => {
            let c = deflate(raw, m);
            assert!(c.len() < 32000, "HARNESS: compressed block too large");
            btype = super::deflate_first_btype(&c);
            e.u32le("blk.stored_len", c.len() as u32);
            e.u32le("blk.raw_len", raw.len() as u32);
            e.mark("blk.payload", c.len().min(8), false);
            e.bytes(&c);
        }
    }
    // the stored block (header + payload) is padded to a multiple of 128 bytes
    let len = e.pos() - start;
    e.zeros(((len + 127) & !127) - len);
    (e.pos() - start, btype)
}

#[derive(Clone, Debug, PartialEq, Eq, Serialize, Deserialize)]
pub struct ModelSpec {
    pub version: u32,
    pub vertex_declarations: u16,
    pub materials: u16,
    pub lods: u8,
    pub streaming: bool,
    pub edge_geometry: bool,
    /// stack, runtime, then per LOD: vertex, index (edge geometry sections are always empty)
    pub stack: Vec<BlockSpec>,
    pub runtime: Vec<BlockSpec>,
    pub vertex: [Vec<BlockSpec>; 3],
    pub index: [Vec<BlockSpec>; 3],
    pub fill: u64,
    /// where the sections sit in the data area (each is found through its own offset field; the
    /// block-size table keeps the customary order): 0 customary and contiguous, 1 with 128 unused
    /// bytes in front of every section, 2 in the opposite order, 3 runtime in front of the stack,
    /// 4 the vertex blocks of the first LOD between stack and runtime
    #[serde(default)]
    pub layout: u8,
}

#[derive(Clone, Debug, PartialEq, Eq, Serialize, Deserialize)]
pub enum EntryKind {
    Standard { blocks: Vec<BlockSpec>, fill: u64 },
    /// `layout`: bit 0 = 128 unused bytes in front of every mip but the first, bit 1 = the last
    /// two mips sit in the data area in the opposite order (each mip is found through its own
    /// offset field; mip 0 stays first because the texture header ends where it starts)
    Texture {
        header_len: usize,
        mips: Vec<Vec<BlockSpec>>,
        fill: u64,
        #[serde(default)]
        layout: u8,
    },
    Model(ModelSpec),
}

#[derive(Default, Clone, Debug)]
pub struct PackInfo {
    /// deflate block types seen: [stored, fixed, dynamic]
    pub btypes: [u32; 3],
    pub raw_blocks: u32,
    pub blocks: u32,
    pub block_16000: bool,
}

fn section_bytes(blocks: &[BlockSpec], fill: u64, salt: u64) -> Vec<u8> {
    let total: usize = blocks.iter().map(|b| b.len).sum();
    Bytes::Fill { len: total, fill: fill.wrapping_mul(31).wrapping_add(salt) | (salt << 2) }.get()
}

fn note(info: &mut PackInfo, mode: Mode, bt: u8, len: usize) {
    info.blocks += 1;
    if len == 16000 {
        info.block_16000 = true;
    }
    if mode == Mode::Raw {
        info.raw_blocks += 1;
    } else if (bt as usize) < 3 {
        info.btypes[bt as usize] += 1;
    }
}

/// What extraction of the entry must return.
pub struct Expect {
    pub kind: &'static str,
    /// standard/texture: whole output. model: bytes from 0x44 on.
    pub body: Vec<u8>,
    /// model only: (stack, runtime, vertex[3], index[3]) sections
    pub sections: Vec<Vec<u8>>,
}

/// Encodes one dat entry (file-info header + blocks). The entry is meant to be placed at a
/// 128-aligned offset; its own length is a multiple of 128.
pub fn encode_entry(kind: &EntryKind, info: &mut PackInfo) -> (EncodedFile, Expect) {
    match kind {
        EntryKind::Standard { blocks, fill } => {
            let content = section_bytes(blocks, *fill, 1);
            let mut body = Enc::new();
            let mut table: Vec<(u32, u16, u16)> = vec![];
            let mut at = 0usize;
            for (i, b) in blocks.iter().enumerate() {
                body.set_prefix(&format!("b{}.", i));
                let off = body.pos();
                let (stored, bt) = encode_block(&mut body, &content[at..at + b.len], b.mode);
                note(info, b.mode, bt, b.len);
                table.push((off as u32, stored as u16, b.len as u16));
                at += b.len;
            }
            let mut e = Enc::new();
            let header_len = (24 + 8 * blocks.len() + 127) & !127;
            e.u32le("fi.size", header_len as u32);
            e.u32le("fi.type", 2);
            e.u32le("fi.raw_size", content.len() as u32);
            e.u32le("fi.unk1", ((body.pos() + 127) / 128) as u32);
            e.u32le("fi.unk2", ((body.pos() + 127) / 128) as u32);
            e.u32le("fi.num_blocks", blocks.len() as u32);
            for (i, (off, stored, raw)) in table.iter().enumerate() {
                e.set_prefix(&format!("t{}.", i));
                e.u32le("offset", *off);
                e.u16le("stored", *stored);
                e.u16le("raw", *raw);
            }
            e.set_prefix("");
            e.pad_to(128);
            let mut boundaries = vec![0, 12, 24, e.pos()];
            let base = e.pos();
            for (off, _, _) in &table {
                boundaries.push(base + *off as usize);
                boundaries.push(base + *off as usize + 16);
            }
            e.append(body);
            boundaries.push(e.pos());
            (
                EncodedFile { bytes: e.buf, fields: e.fields, boundaries },
                Expect { kind: "standard", body: content, sections: vec![] },
            )
        }
        EntryKind::Texture { header_len, mips, fill, layout } => {
            let tex_header = Bytes::Fill { len: *header_len, fill: fill ^ 0x7e } .get();
            let mut body = Enc::new();
            body.bytes(&tex_header);
            let mut expect = tex_header.clone();
            // block-size table and mip rows are in mip order; the data area may hold the last
            // two mips in the opposite order
            let mut sub_sizes: Vec<u16> = vec![];
            let mut firsts: Vec<u32> = vec![];
            let mut contents: Vec<Vec<u8>> = vec![];
            for (m, blocks) in mips.iter().enumerate() {
                firsts.push(sub_sizes.len() as u32);
                contents.push(section_bytes(blocks, *fill, 10 + m as u64));
                sub_sizes.extend(std::iter::repeat(0u16).take(blocks.len()));
            }
            let mut physical: Vec<usize> = (0..mips.len()).collect();
            if layout & 2 != 0 && mips.len() >= 3 {
                let n = mips.len();
                physical.swap(n - 1, n - 2);
            }
            let mut mip_rows: Vec<(u32, u32, u32, u32, u32)> = vec![(0, 0, 0, 0, 0); mips.len()];
            for (pos, &m) in physical.iter().enumerate() {
                let blocks = &mips[m];
                let content = &contents[m];
                if pos > 0 && layout & 1 != 0 {
                    body.bytes(&[0xEE; 128]);
                }
                let start = body.pos();
                let mut at = 0;
                for (i, b) in blocks.iter().enumerate() {
                    body.set_prefix(&format!("m{}b{}.", m, i));
                    let (stored, bt) = encode_block(&mut body, &content[at..at + b.len], b.mode);
                    note(info, b.mode, bt, b.len);
                    sub_sizes[firsts[m] as usize + i] = stored as u16;
                    at += b.len;
                }
                mip_rows[m] = (start as u32, (body.pos() - start) as u32, content.len() as u32, firsts[m], blocks.len() as u32);
            }
            for c in &contents {
                expect.extend_from_slice(c);
            }
            let mut e = Enc::new();
            let hl = (24 + 20 * mips.len() + 2 * sub_sizes.len() + 127) & !127;
            e.u32le("fi.size", hl as u32);
            e.u32le("fi.type", 4);
            e.u32le("fi.raw_size", expect.len() as u32);
            e.u32le("fi.unk1", 0);
            e.u32le("fi.unk2", 0);
            e.u32le("fi.num_mips", mips.len() as u32);
            for (i, r) in mip_rows.iter().enumerate() {
                e.set_prefix(&format!("mip{}.", i));
                e.u32le("stored_off", r.0);
                e.u32le("stored_size", r.1);
                e.u32le("raw_size", r.2);
                e.u32le("first_block", r.3);
                e.u32le("block_count", r.4);
            }
            e.set_prefix("");
            for (i, s) in sub_sizes.iter().enumerate() {
                e.u16le(&format!("sub{}", i), *s);
            }
            e.pad_to(128);
            let mut boundaries = vec![0, 12, 24, 24 + 20 * mips.len(), e.pos()];
            let base = e.pos();
            for r in &mip_rows {
                boundaries.push(base + r.0 as usize);
            }
            e.append(body);
            boundaries.push(e.pos());
            (
                EncodedFile { bytes: e.buf, fields: e.fields, boundaries },
                Expect { kind: "texture", body: expect, sections: vec![] },
            )
        }
        EntryKind::Model(m) => {
            // section order in the file: stack, runtime, then per LOD vertex, (edge), index
            let mut order: Vec<(usize, &Vec<BlockSpec>)> = vec![(0, &m.stack), (1, &m.runtime)];
            for l in 0..3 {
                order.push((2 + l, &m.vertex[l]));
                order.push((8 + l, &m.index[l]));
            }
            // slot numbering inside the 11-element tables: 0 stack, 1 runtime, 2..4 vertex,
            // 5..7 edge, 8..10 index
            let mut raw_sizes = [0u32; 11];
            let mut stored_sizes = [0u32; 11];
            let mut offsets = [0u32; 11];
            let mut first_idx = [0u16; 11];
            let mut counts = [0u16; 11];
            let mut body = Enc::new();
            let mut block_sizes: Vec<u16> = vec![];
            let mut sections: Vec<Vec<u8>> = vec![Vec::new(); 8];
            let mut flat = Vec::new();
            let mut encoded: Vec<(usize, Enc)> = vec![];
            for (slot, blocks) in &order {
                let content = section_bytes(blocks, m.fill, 100 + *slot as u64);
                let mut se = Enc::new();
                first_idx[*slot] = block_sizes.len() as u16;
                counts[*slot] = blocks.len() as u16;
                raw_sizes[*slot] = content.len() as u32;
                let mut at = 0;
                for (i, b) in blocks.iter().enumerate() {
                    se.set_prefix(&format!("s{}b{}.", slot, i));
                    let (stored, bt) = encode_block(&mut se, &content[at..at + b.len], b.mode);
                    note(info, b.mode, bt, b.len);
                    block_sizes.push(stored as u16);
                    at += b.len;
                }
                stored_sizes[*slot] = se.pos() as u32;
                let sec_idx = match *slot {
                    0 => 0,
                    1 => 1,
                    2..=4 => 2 + (*slot - 2),
                    _ => 5 + (*slot - 8),
                };
                sections[sec_idx] = content.clone();
                flat.extend_from_slice(&content);
                encoded.push((*slot, se));
            }
            // physical placement
            let mut phys: Vec<usize> = (0..encoded.len()).collect();
            match m.layout {
                2 => phys.reverse(),
                3 => phys.swap(0, 1),
                4 => phys.swap(1, 2),
                _ => {}
            }
            let mut slots: Vec<Option<(usize, Enc)>> = encoded.into_iter().map(Some).collect();
            for k in phys {
                let (slot, se) = slots[k].take().unwrap();
                if m.layout == 1 {
                    body.zeros(128);
                }
                offsets[slot] = body.pos() as u32;
                body.append(se);
            }
            // edge slots: offsets point at the following section, sizes zero
            for l in 0..3 {
                offsets[5 + l] = offsets[8 + l];
                first_idx[5 + l] = first_idx[8 + l];
            }
            let mut e = Enc::new();
            let fixed = 12 + 12 + 44 * 3 + 22 * 2 + 8;
            let hl = (fixed + 2 * block_sizes.len() + 127) & !127;
            e.u32le("fi.size", hl as u32);
            e.u32le("fi.type", 3);
            e.u32le("fi.raw_size", (flat.len() + 0x44) as u32);
            e.u32le("mi.num_blocks", block_sizes.len() as u32);
            e.u32le("mi.used_blocks", block_sizes.len() as u32);
            e.u32le("mi.version", m.version);
            for (i, v) in raw_sizes.iter().enumerate() {
                e.u32le(&format!("mi.raw{}", i), *v);
            }
            for (i, v) in stored_sizes.iter().enumerate() {
                e.u32le(&format!("mi.stored{}", i), *v);
            }
            for (i, v) in offsets.iter().enumerate() {
                e.u32le(&format!("mi.off{}", i), *v);
            }
            for (i, v) in first_idx.iter().enumerate() {
                e.u16le(&format!("mi.first{}", i), *v);
            }
            for (i, v) in counts.iter().enumerate() {
                e.u16le(&format!("mi.count{}", i), *v);
            }
            e.u16le("mi.vdecl", m.vertex_declarations);
            e.u16le("mi.materials", m.materials);
            e.u8("mi.lods", m.lods);
            e.u8("mi.streaming", m.streaming as u8);
            e.u8("mi.edge", m.edge_geometry as u8);
            e.u8("", 0);
            debug_assert_eq!(e.pos(), fixed);
            for (i, s) in block_sizes.iter().enumerate() {
                e.u16le(&format!("mbs{}", i), *s);
            }
            e.pad_to(128);
            let mut boundaries = vec![0, 12, 24, fixed, e.pos()];
            let base = e.pos();
            for o in offsets {
                boundaries.push(base + o as usize);
            }
            e.append(body);
            boundaries.push(e.pos());
            (
                EncodedFile { bytes: e.buf, fields: e.fields, boundaries },
                Expect { kind: "model", body: flat, sections },
            )
        }
    }
}

/// A dat file: SqPack header + data header, then entries at their offsets.
pub struct DatBuilder {
    pub bytes: Vec<u8>,
    pub fields: Vec<Field>,
    pub boundaries: Vec<usize>,
}

impl DatBuilder {
    pub fn new(platform: u8) -> DatBuilder {
        let mut bytes = sqpack_header(platform, 1);
        // data header (0x400 bytes): size, zeros, data size, span, ..., hashes. No reader in scope
        // interprets it; it is laid out for fidelity only.
        let mut e = Enc::new();
        e.u32le("", 0x400);
        e.u32le("", 0);
        e.u32le("", 0x10);
        e.u32le("", 0);
        e.u32le("", 1);
        e.u32le("", 0);
        e.u32le("", 2_000_000_000);
        e.u32le("", 0);
        e.zeros(0x400 - e.pos());
        bytes.extend_from_slice(&e.buf);
        DatBuilder { bytes, fields: vec![], boundaries: vec![0x400, 0x800] }
    }

    pub fn next_offset(&self) -> u64 {
        ((self.bytes.len() + 127) & !127) as u64
    }

    /// Places an entry at `offset` (>= next_offset, 128-aligned).
    pub fn place(&mut self, offset: u64, entry: &EncodedFile, tag: &str) {
        let off = offset as usize;
        assert!(off % 128 == 0 && off >= self.bytes.len(), "HARNESS: bad entry offset");
        self.bytes.resize(off, 0);
        for f in &entry.fields {
            let mut f = f.clone();
            f.off += off;
            f.name = format!("{}{}", tag, f.name);
            self.fields.push(f);
        }
        for b in &entry.boundaries {
            self.boundaries.push(off + b);
        }
        self.bytes.extend_from_slice(&entry.bytes);
    }
}
