//! Independent encoders for the formats physis reads. Nothing here calls into physis.

pub mod sqpack;
pub mod zipatch;

use crate::rng::fill_bytes;
use serde::{Deserialize, Serialize};

/// A byte string as a recipe, so that scenario documents stay small.
#[derive(Clone, Debug, PartialEq, Eq, Serialize, Deserialize)]
pub enum Bytes {
    Fill { len: usize, fill: u64 },
    Hex(String),
}

impl Bytes {
    pub fn len(&self) -> usize {
        match self {
            Bytes::Fill { len, .. } => *len,
            Bytes::Hex(h) => h.len() / 2,
        }
    }
    pub fn get(&self) -> Vec<u8> {
        match self {
            Bytes::Fill { len, fill } => fill_bytes(*len, *fill),
            Bytes::Hex(h) => unhex(h),
        }
    }
    pub fn shrink_to(&self, n: usize) -> Bytes {
        match self {
            Bytes::Fill { fill, .. } => Bytes::Fill { len: n, fill: *fill },
            Bytes::Hex(h) => Bytes::Hex(h[..(n * 2).min(h.len())].to_string()),
        }
    }
}

pub fn hex(b: &[u8]) -> String {
    let mut s = String::with_capacity(b.len() * 2);
    for x in b {
        s.push_str(&format!("{:02x}", x));
    }
    s
}

pub fn unhex(h: &str) -> Vec<u8> {
    let b = h.as_bytes();
    (0..b.len() / 2)
        .map(|i| {
            let d = |c: u8| match c {
                b'0'..=b'9' => c - b'0',
                b'a'..=b'f' => c - b'a' + 10,
                b'A'..=b'F' => c - b'A' + 10,
                _ => 0,
            };
            d(b[2 * i]) << 4 | d(b[2 * i + 1])
        })
        .collect()
}

/// Named field inside an encoded file, for targeted at-rest corruption.
#[derive(Clone, Debug, PartialEq, Eq, Serialize, Deserialize)]
pub struct Field {
    pub name: String,
    pub off: usize,
    pub width: usize,
    /// big-endian field
    pub be: bool,
}

pub struct Enc {
    pub buf: Vec<u8>,
    pub fields: Vec<Field>,
    prefix: String,
}

impl Enc {
    pub fn new() -> Enc {
        Enc { buf: Vec::new(), fields: Vec::new(), prefix: String::new() }
    }
    pub fn set_prefix(&mut self, p: &str) {
        self.prefix = p.to_string();
    }
    pub fn mark(&mut self, name: &str, width: usize, be: bool) {
        self.fields.push(Field {
            name: format!("{}{}", self.prefix, name),
            off: self.buf.len(),
            width,
            be,
        });
    }
    pub fn u8(&mut self, name: &str, v: u8) {
        if !name.is_empty() {
            self.mark(name, 1, false);
        }
        self.buf.push(v);
    }
    pub fn u16le(&mut self, name: &str, v: u16) {
        if !name.is_empty() {
            self.mark(name, 2, false);
        }
        self.buf.extend_from_slice(&v.to_le_bytes());
    }
    pub fn u32le(&mut self, name: &str, v: u32) {
        if !name.is_empty() {
            self.mark(name, 4, false);
        }
        self.buf.extend_from_slice(&v.to_le_bytes());
    }
    pub fn u64le(&mut self, name: &str, v: u64) {
        if !name.is_empty() {
            self.mark(name, 8, false);
        }
        self.buf.extend_from_slice(&v.to_le_bytes());
    }
    pub fn u16be(&mut self, name: &str, v: u16) {
        if !name.is_empty() {
            self.mark(name, 2, true);
        }
        self.buf.extend_from_slice(&v.to_be_bytes());
    }
    pub fn u32be(&mut self, name: &str, v: u32) {
        if !name.is_empty() {
            self.mark(name, 4, true);
        }
        self.buf.extend_from_slice(&v.to_be_bytes());
    }
    pub fn u64be(&mut self, name: &str, v: u64) {
        if !name.is_empty() {
            self.mark(name, 8, true);
        }
        self.buf.extend_from_slice(&v.to_be_bytes());
    }
    pub fn bytes(&mut self, b: &[u8]) {
        self.buf.extend_from_slice(b);
    }
    pub fn zeros(&mut self, n: usize) {
        self.buf.resize(self.buf.len() + n, 0);
    }
    pub fn pad_to(&mut self, align: usize) {
        let r = self.buf.len() % align;
        if r != 0 {
            self.zeros(align - r);
        }
    }
    pub fn pos(&self) -> usize {
        self.buf.len()
    }
    pub fn patch_u32le(&mut self, off: usize, v: u32) {
        self.buf[off..off + 4].copy_from_slice(&v.to_le_bytes());
    }
    pub fn patch_u32be(&mut self, off: usize, v: u32) {
        self.buf[off..off + 4].copy_from_slice(&v.to_be_bytes());
    }
    /// Appends another encoder's bytes, rebasing its fields.
    pub fn append(&mut self, other: Enc) {
        let base = self.buf.len();
        for mut f in other.fields {
            f.off += base;
            self.fields.push(f);
        }
        self.buf.extend_from_slice(&other.buf);
    }
}

/// CRC-32 (IEEE 802.3, reflected, init and final xor 0xFFFFFFFF), bit by bit.
pub fn crc32(bytes: &[u8]) -> u32 {
    !jamcrc(bytes)
}

/// JAMCRC: as CRC-32 but without the final inversion.
pub fn jamcrc(bytes: &[u8]) -> u32 {
    let mut crc: u32 = 0xFFFF_FFFF;
    for b in bytes {
        crc ^= *b as u32;
        for _ in 0..8 {
            crc = if crc & 1 != 0 { (crc >> 1) ^ 0xEDB8_8320 } else { crc >> 1 };
        }
    }
    crc
}

pub fn sha1(data: &[u8]) -> [u8; 20] {
    let mut h: [u32; 5] = [0x67452301, 0xEFCDAB89, 0x98BADCFE, 0x10325476, 0xC3D2E1F0];
    let mut msg = data.to_vec();
    let bitlen = (data.len() as u64) * 8;
    msg.push(0x80);
    while msg.len() % 64 != 56 {
        msg.push(0);
    }
    msg.extend_from_slice(&bitlen.to_be_bytes());
    for chunk in msg.chunks(64) {
        let mut w = [0u32; 80];
        for i in 0..16 {
            w[i] = u32::from_be_bytes([chunk[4 * i], chunk[4 * i + 1], chunk[4 * i + 2], chunk[4 * i + 3]]);
        }
        for i in 16..80 {
            w[i] = (w[i - 3] ^ w[i - 8] ^ w[i - 14] ^ w[i - 16]).rotate_left(1);
        }
        let (mut a, mut b, mut c, mut d, mut e) = (h[0], h[1], h[2], h[3], h[4]);
        for (i, wi) in w.iter().enumerate() {
            let (f, k) = match i {
                0..=19 => ((b & c) | (!b & d), 0x5A827999u32),
                20..=39 => (b ^ c ^ d, 0x6ED9EBA1),
                40..=59 => ((b & c) | (b & d) | (c & d), 0x8F1BBCDC),
                _ => (b ^ c ^ d, 0xCA62C1D6),
            };
            let t = a.rotate_left(5).wrapping_add(f).wrapping_add(e).wrapping_add(k).wrapping_add(*wi);
            e = d;
            d = c;
            c = b.rotate_left(30);
            b = a;
            a = t;
        }
        h[0] = h[0].wrapping_add(a);
        h[1] = h[1].wrapping_add(b);
        h[2] = h[2].wrapping_add(c);
        h[3] = h[3].wrapping_add(d);
        h[4] = h[4].wrapping_add(e);
    }
    let mut out = [0u8; 20];
    for i in 0..5 {
        out[4 * i..4 * i + 4].copy_from_slice(&h[i].to_be_bytes());
    }
    out
}

/// How a block's payload is stored.
#[derive(Clone, Copy, Debug, PartialEq, Eq, Serialize, Deserialize, Hash)]
pub enum Mode {
    /// not compressed (32000 marker)
    Raw,
    /// miniz_oxide at the given level (0..=10); chooses stored/fixed/dynamic itself
    Miniz(u8),
    /// hand-built deflate "stored" blocks
    Stored,
    /// hand-built deflate fixed-Huffman block, literals only
    Fixed,
}

struct BitW {
    out: Vec<u8>,
    acc: u32,
    n: u32,
}

impl BitW {
    fn bits(&mut self, v: u32, n: u32) {
        // LSB first
        self.acc |= v << self.n;
        self.n += n;
        while self.n >= 8 {
            self.out.push(self.acc as u8);
            self.acc >>= 8;
            self.n -= 8;
        }
    }
    fn huff(&mut self, code: u32, len: u32) {
        // Huffman codes go MSB first
        let mut r = 0;
        for i in 0..len {
            if code & (1 << (len - 1 - i)) != 0 {
                r |= 1 << i;
            }
        }
        self.bits(r, len);
    }
    fn finish(mut self) -> Vec<u8> {
        if self.n > 0 {
            self.out.push(self.acc as u8);
        }
        self.out
    }
}

pub fn deflate_stored(data: &[u8]) -> Vec<u8> {
    let mut out = Vec::new();
    if data.is_empty() {
        out.extend_from_slice(&[1, 0, 0, 0xFF, 0xFF]);
        return out;
    }
    let chunks: Vec<&[u8]> = data.chunks(65535).collect();
    for (i, c) in chunks.iter().enumerate() {
        out.push(if i + 1 == chunks.len() { 1 } else { 0 });
        let l = c.len() as u16;
        out.extend_from_slice(&l.to_le_bytes());
        out.extend_from_slice(&(!l).to_le_bytes());
        out.extend_from_slice(c);
    }
    out
}

pub fn deflate_fixed(data: &[u8]) -> Vec<u8> {
    let mut w = BitW { out: Vec::new(), acc: 0, n: 0 };
    w.bits(1, 1); // BFINAL
    w.bits(1, 2); // BTYPE = 01 fixed
    for b in data {
        let b = *b as u32;
        if b < 144 {
            w.huff(0x30 + b, 8);
        } else {
            w.huff(0x190 + (b - 144), 9);
        }
    }
    w.huff(0, 7); // end of block (256)
    w.finish()
}

/// First deflate block type of a raw stream: 0 stored, 1 fixed, 2 dynamic.
pub fn deflate_first_btype(stream: &[u8]) -> u8 {
    if stream.is_empty() {
        return 3;
    }
    (stream[0] >> 1) & 3
}

/// Raw-deflate `data` under `mode` (must not be Raw).
pub fn deflate(data: &[u8], mode: Mode) -> Vec<u8> {
    match mode {
        Mode::Raw => data.to_vec(),
        Mode::Miniz(level) => miniz_oxide::deflate::compress_to_vec(data, level),
        Mode::Stored => deflate_stored(data),
        Mode::Fixed => deflate_fixed(data),
    }
}

#[cfg(test)]
mod tests {
    use super::*;
    #[test]
    fn crc_vectors() {
        assert_eq!(crc32(b"123456789"), 0xCBF43926);
        assert_eq!(jamcrc(b"123456789"), 0x340BC6D9);
    }
    #[test]
    fn sha1_vectors() {
        assert_eq!(hex(&sha1(b"abc")), "a9993e364706816aba3e25717850c26c9cd0d89d");
        assert_eq!(hex(&sha1(b"")), "da39a3ee5e6b4b0d3255bfef95601890afd80709");
    }
    #[test]
    fn deflate_roundtrip() {
        for n in [0usize, 1, 5, 143, 144, 300, 70000] {
            let d = crate::rng::fill_bytes(n, n as u64);
            for m in [Mode::Stored, Mode::Fixed, Mode::Miniz(1), Mode::Miniz(6)] {
                let c = deflate(&d, m);
                let back = miniz_oxide::inflate::decompress_to_vec(&c).unwrap();
                assert_eq!(back, d);
            }
        }
    }
}
