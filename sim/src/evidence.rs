//! The check driver: batch, triage against known findings, minimisation, replay files, evidence.

use crate::harness::{Tier, AT_REST_KINDS};
use crate::props::{self, Doc};
use crate::shrink;
use crate::simfs::{CALLS, DONE_NAMES, HOSTILES};
use crate::supervisor::{run_batch, Agg, BatchSpec, Worker};
use serde::{Deserialize, Serialize};
use serde_json::{json, Value};
use std::collections::BTreeMap;
use std::path::PathBuf;
use std::time::{Duration, Instant};

pub fn root() -> PathBuf {
    if let Ok(r) = std::env::var("VERIF_ROOT") {
        return PathBuf::from(r);
    }
    let exe = std::env::current_exe().expect("HARNESS: current_exe");
    // <root>/sim/target/release/sim
    exe.parent()
        .and_then(|p| p.parent())
        .and_then(|p| p.parent())
        .and_then(|p| p.parent())
        .map(|p| p.to_path_buf())
        .unwrap_or_else(|| PathBuf::from("/verif"))
}

#[derive(Clone, Debug, Serialize, Deserialize)]
pub struct Finding {
    pub status: String,
    pub property: String,
    #[serde(default)]
    pub signature: String,
    pub what: String,
    #[serde(default)]
    pub replay: String,
    #[serde(default)]
    pub commit: String,
}

#[derive(Clone, Debug, Default, Serialize, Deserialize)]
pub struct Findings {
    pub findings: Vec<Finding>,
}

pub fn load_findings() -> Findings {
    let p = root().join("known_findings.json");
    match std::fs::read_to_string(&p) {
        Ok(s) => serde_json::from_str(&s).unwrap_or_else(|e| {
            eprintln!("HARNESS: known_findings.json does not parse: {}", e);
            std::process::exit(2);
        }),
        Err(_) => Findings::default(),
    }
}

#[derive(Clone, Debug, Serialize, Deserialize)]
pub struct ReplayFile {
    pub property: String,
    pub signature: String,
    pub message: String,
    pub tier: Tier,
    pub original_seed: u64,
    pub minimisation: String,
    /// None: the document could not be regenerated outside the dying worker; replay by seed
    pub doc: Option<Doc>,
    /// worker requests ("G <seed>" = generated scenario of that seed, "X <n>" = directed scenario
    /// n) that must run in the same process before `doc`: only present when the violation
    /// depends on state physis keeps between calls
    #[serde(default)]
    pub history: Vec<String>,
    pub trace: Vec<String>,
    pub log_hash: u64,
    pub sched_hash: u64,
}

fn runs_for(prop: &str, tier: Tier) -> u64 {
    let (q, t) = props::budget(prop);
    match tier {
        Tier::Quick => q,
        Tier::Thorough => t,
    }
}

fn sig_hash(s: &str) -> String {
    format!("{:08x}", crate::rng::fnv1a(crate::rng::FNV_INIT, s.as_bytes()) as u32)
}

/// First scenario seed of a batch. VERIF_SEED=1 (the default) explores scenario seeds 1, 2, 3, ...;
/// any other value starts a range far away from it (and above the directed scenarios' numbers),
/// so that two batches under different VERIF_SEED values share no scenario.
pub fn scenario_base(verif_seed: u64) -> u64 {
    if verif_seed == 1 {
        return 1;
    }
    let mut z = verif_seed.wrapping_add(0x9E37_79B9_7F4A_7C15);
    z = (z ^ (z >> 30)).wrapping_mul(0xBF58_476D_1CE4_E5B9);
    z = (z ^ (z >> 27)).wrapping_mul(0x94D0_49BB_1331_11EB);
    z ^= z >> 31;
    (z >> 16) | (1 << 48)
}

pub fn run_check(prop: &str, tier: Tier, seed: u64, runs: Option<u64>, workers: usize) -> i32 {
    if !props::PROPS.contains(&prop) {
        eprintln!("HARNESS: property {} has no check", prop);
        return 2;
    }
    let start = Instant::now();
    // replay files of earlier runs of this property are stale by definition
    if let Ok(rd) = std::fs::read_dir(root().join("replays")) {
        for e in rd.flatten() {
            let n = e.file_name().to_string_lossy().to_string();
            if n.starts_with(&format!("{}-", prop)) && n.ends_with(".json") {
                let _ = std::fs::remove_file(e.path());
            }
        }
    }
    let runs = runs.unwrap_or_else(|| runs_for(prop, tier));
    let directed = props::directed(prop);
    let spec = BatchSpec {
        prop: prop.to_string(),
        tier,
        base_seed: scenario_base(seed),
        runs,
        workers,
        deadline: Some(start + if tier == Tier::Quick { Duration::from_secs(240) } else { Duration::from_secs(3 * 3600) }),
        keep_per_seed: false,
        directed: directed.len(),
        known: load_findings().findings.iter().filter(|f| f.status == "known" && f.property == prop).map(|f| f.signature.clone()).collect(),
    };
    println!(
        "sim: property={} tier={:?} VERIF_SEED={} runs={} (+{} directed) workers={}",
        prop,
        tier,
        seed,
        runs,
        directed.len(),
        workers
    );
    let agg = run_batch(&spec);
    let batch_s = start.elapsed().as_secs_f64();

    // mandatory probes
    let names = props::probe_names(prop);
    let mut harness_error = false;
    // a batch that stopped early (fail-fast) cannot be expected to have reached every probe
    let complete = agg.evaluations >= runs + directed.len() as u64;
    for i in props::mandatory_probes(prop).into_iter().filter(|_| complete) {
        if agg.probes.get(i).copied().unwrap_or(0) == 0 {
            eprintln!("HARNESS: mandatory probe '{}' stayed at zero", names[i]);
            harness_error = true;
        }
    }

    // triage
    let findings = load_findings();
    let mut by_sig: BTreeMap<String, (u64, String, u64)> = BTreeMap::new();
    for (s, v, _) in &agg.violations {
        let e = by_sig.entry(v.sig.clone()).or_insert((*s, v.msg.clone(), 0));
        e.2 += 1;
    }
    let mut known_hits: Vec<(String, u64)> = vec![];
    let mut new_sigs: Vec<(String, u64, String, u64)> = vec![];
    for (sig, (s, msg, n)) in &by_sig {
        if sig.contains("|unreproduced-death|") {
            eprintln!("HARNESS: {} (seed {})", msg, s);
            harness_error = true;
            continue;
        }
        if let Some(f) = findings
            .findings
            .iter()
            .find(|f| f.status == "known" && f.property == prop && f.signature == *sig)
        {
            println!("KNOWN-FINDING: property={} {} [{} of {} runs, first seed {}]", prop, f.what, n, agg.evaluations, s);
            known_hits.push((sig.clone(), *n));
        } else {
            new_sigs.push((sig.clone(), *s, msg.clone(), *n));
        }
    }
    new_sigs.sort_by_key(|x| x.1);

    let mut violation_lines = vec![];
    if !new_sigs.is_empty() {
        let replay_dir = root().join("replays");
        std::fs::create_dir_all(&replay_dir).ok();
        let mut w = Worker::spawn(prop, tier);
        let per_sig_budget = Duration::from_secs(if tier == Tier::Quick { 25 } else { 120 });
        for (k, (sig, s, msg, n)) in new_sigs.iter().enumerate() {
            // find the document: the failing run handed it back, or regenerate it
            let with_doc = agg.violations.iter().find(|(_, v, d)| v.sig == *sig && d.is_some());
            let doc_seed = with_doc.map(|(ds, _, _)| *ds);
            let doc = with_doc
                .and_then(|(_, _, d)| serde_json::from_str::<Doc>(d.as_ref().unwrap()).ok())
                .or_else(|| doc_for(&mut w, prop, *s, &directed));
            let Some(doc) = doc else {
                // the scenario kills the worker even while being generated: report it by seed
                let path = replay_dir.join(format!("{}-{}-{}.json", prop, s, sig_hash(sig)));
                let rf = ReplayFile {
                    property: prop.to_string(),
                    signature: sig.clone(),
                    message: msg.clone(),
                    tier,
                    original_seed: *s,
                    minimisation: "not minimised: the scenario document could not be regenerated".into(),
                    doc: None,
                    history: vec![],
                    trace: vec![],
                    log_hash: 0,
                    sched_hash: 0,
                };
                std::fs::write(&path, serde_json::to_string_pretty(&rf).unwrap()).expect("HARNESS: write replay");
                println!("sim: violation signature: {}", sig);
                println!("sim:   {} [{} of {} runs, first seed {}]", msg, n, agg.evaluations, s);
                let line = format!("VIOLATION property={} replay={}", prop, path.display());
                println!("{}", line);
                violation_lines.push(line);
                continue;
            };
            let (min_doc, note) = if k < 6 {
                let sh = shrink::minimise(&mut w, &doc, sig, per_sig_budget);
                (
                    sh.doc,
                    format!("{} accepted simplifications out of {} candidates tried", sh.steps, sh.tried),
                )
            } else {
                (doc.clone(), "not minimised (more than 6 distinct signatures in this run)".to_string())
            };
            // final replay in a fresh process, with trace
            let mut fresh = Worker::spawn(prop, tier);
            let rr = fresh.run_doc(&min_doc, true);
            drop(fresh);
            let mut reproduced = rr.violation.as_ref().map(|v| v.sig == *sig).unwrap_or(false);
            let mut rr = rr;
            let mut min_doc = min_doc;
            let mut note = note;
            let mut history: Vec<String> = vec![];
            if !reproduced {
                // The scenario alone is innocent in a fresh process: the failure may depend on
                // state the library kept from earlier scenarios in the same worker. Replay the
                // worker's history in front of the original document and shrink the history.
                if let Some(h) = doc_seed.and_then(|ds| agg.histories.get(&ds)) {
                    let with_history = |hist: &[String], d: &Doc, trace: bool| -> crate::harness::RunResult {
                        let mut w = Worker::spawn(prop, tier);
                        for line in hist {
                            let _ = w.request(line, 0);
                        }
                        w.run_doc(d, trace)
                    };
                    let fails = |hist: &[String]| with_history(hist, &doc, false).violation.as_ref().map(|v| v.sig == *sig).unwrap_or(false);
                    if fails(h) {
                        let t0 = Instant::now();
                        let mut cur: Vec<String> = h.clone();
                        // shortest failing suffix by halving, then single removals while time allows
                        loop {
                            let half = cur.len() / 2;
                            if half == 0 || t0.elapsed() > per_sig_budget {
                                break;
                            }
                            if fails(&cur[half..]) {
                                cur = cur[half..].to_vec();
                            } else if fails(&cur[..half]) {
                                cur = cur[..half].to_vec();
                            } else {
                                break;
                            }
                        }
                        let mut i = 0;
                        while i < cur.len() && cur.len() <= 64 && t0.elapsed() < per_sig_budget * 2 {
                            let mut c = cur.clone();
                            c.remove(i);
                            if fails(&c) {
                                cur = c;
                            } else {
                                i += 1;
                            }
                        }
                        rr = with_history(&cur, &doc, true);
                        reproduced = rr.violation.as_ref().map(|v| v.sig == *sig).unwrap_or(false);
                        if reproduced {
                            note = format!(
                                "the scenario fails only after {} earlier scenario(s) in the same process (library state kept between calls); history shrunk from {} requests, document not minimised",
                                cur.len(),
                                h.len()
                            );
                            min_doc = doc.clone();
                            history = cur;
                        }
                    }
                }
            }
            if !reproduced {
                eprintln!(
                    "HARNESS: minimised scenario for '{}' did not reproduce in a fresh process (got {:?})",
                    sig,
                    rr.violation.as_ref().map(|v| &v.sig)
                );
                harness_error = true;
                continue;
            }
            let path = replay_dir.join(format!("{}-{}-{}.json", prop, s, sig_hash(sig)));
            let rf = ReplayFile {
                property: prop.to_string(),
                signature: sig.clone(),
                message: rr.violation.as_ref().map(|v| v.msg.clone()).unwrap_or(msg.clone()),
                tier,
                original_seed: *s,
                minimisation: note,
                doc: Some(min_doc),
                history,
                trace: rr.trace.clone(),
                log_hash: rr.log_hash,
                sched_hash: rr.sched_hash,
            };
            std::fs::write(&path, serde_json::to_string_pretty(&rf).unwrap()).expect("HARNESS: write replay");
            println!("sim: violation signature: {}", sig);
            println!("sim:   {} [{} of {} runs, first seed {}]", rf.message, n, agg.evaluations, s);
            let line = format!("VIOLATION property={} replay={}", prop, path.display());
            println!("{}", line);
            violation_lines.push(line);
        }
    }

    let wall = start.elapsed().as_secs_f64();
    write_evidence(prop, tier, seed, &agg, batch_s, wall, violation_lines.len(), &known_hits, &directed);
    println!(
        "sim: {} evaluations in {:.1}s ({:.0}/h), {} distinct non-trivial, {} distinct schedules, {} abstract states, {} I/O steps; {} new violation signature(s), {} known finding(s)",
        agg.evaluations,
        batch_s,
        agg.evaluations as f64 / batch_s.max(0.001) * 3600.0,
        agg.distinct_nontrivial.len(),
        agg.distinct_schedules.len(),
        agg.states.len(),
        agg.steps,
        violation_lines.len(),
        known_hits.len()
    );
    // a violation that was confirmed from its replay file in a fresh process stands, whatever else
    // went wrong in the run (e.g. another signature of a state-dependent failure that could not be
    // reproduced alone): exit 1. A harness error alone is exit 2 and never prints VIOLATION.
    if !violation_lines.is_empty() {
        return 1;
    }
    if harness_error {
        return 2;
    }
    0
}

fn doc_for(w: &mut Worker, prop: &str, seed: u64, directed: &[Doc]) -> Option<Doc> {
    if seed >= 0xD1EC7ED0 && seed < 0xD1EC7ED0 + directed.len() as u64 {
        return Some(directed[(seed - 0xD1EC7ED0) as usize].clone());
    }
    let _ = prop;
    let r = w.request(&format!("P {}", seed), seed);
    r.trace.first().and_then(|j| serde_json::from_str(j).ok())
}

fn write_evidence(
    prop: &str,
    tier: Tier,
    seed: u64,
    agg: &Agg,
    batch_s: f64,
    wall: f64,
    violations: usize,
    known: &[(String, u64)],
    directed: &[Doc],
) {
    let names = props::probe_names(prop);
    let mut fired = serde_json::Map::new();
    for (ci, c) in CALLS.iter().enumerate() {
        let mut m = serde_json::Map::new();
        for (di, d) in DONE_NAMES.iter().enumerate() {
            let v = agg.fired.get(ci * 8 + di).copied().unwrap_or(0);
            if v > 0 {
                m.insert(d.to_string(), json!(v));
            }
        }
        if !m.is_empty() {
            fired.insert(format!("{:?}", c), Value::Object(m));
        }
    }
    let mut hostile = serde_json::Map::new();
    for (i, h) in HOSTILES.iter().enumerate() {
        hostile.insert(format!("{:?}", h), json!(agg.hostile.get(i).copied().unwrap_or(0)));
    }
    let mut at_rest = serde_json::Map::new();
    for (i, k) in AT_REST_KINDS.iter().enumerate() {
        at_rest.insert(k.to_string(), json!(agg.at_rest.get(i).copied().unwrap_or(0)));
    }
    let mut probes = serde_json::Map::new();
    for (i, n) in names.iter().enumerate() {
        probes.insert(n.to_string(), json!(agg.probes.get(i).copied().unwrap_or(0)));
    }
    // samples: the first directed scenario and the first two seeded ones, as generated
    let mut samples: Vec<Value> = vec![];
    if let Some(d) = directed.first() {
        samples.push(sample_of(d));
    }
    {
        let mut w = Worker::spawn(prop, tier);
        for s in 0..2u64 {
            if let Some(d) = doc_for(&mut w, prop, scenario_base(seed).wrapping_add(s), directed) {
                samples.push(sample_of(&d));
            }
        }
    }
    let known_json: Vec<Value> = known.iter().map(|(s, n)| json!({"signature": s, "runs": n})).collect();
    let ev = json!({
        "property_id": prop,
        "tier": if tier == Tier::Quick { "quick" } else { "thorough" },
        "seed": seed,
        "level": props::level(prop),
        "coverage": {
            "evaluations": agg.evaluations,
            "distinct_nontrivial": agg.distinct_nontrivial.len(),
            "rule": props::rule(prop),
            "samples": samples,
            "seeds": format!("scenario seeds {}..{} (VERIF_SEED={}) plus {} directed scenarios", scenario_base(seed), scenario_base(seed).wrapping_add(agg.evaluations.saturating_sub(directed.len() as u64)), seed, directed.len()),
            "runs_by_configuration": {"cfg0_quiet": agg.by_cfg[0], "cfg1_benign": agg.by_cfg[1], "cfg2_hostile": agg.by_cfg[2]},
            "nontrivial_runs": agg.nontrivial,
            "distinct_schedules": agg.distinct_schedules.len(),
            "abstract_states": agg.states.len(),
            "simulated_io_steps": agg.steps,
            "operations": agg.ops,
            "simulated_time_note": "physis reads no clock; logical time is the I/O step counter above",
            "runs_per_hour": (agg.evaluations as f64 / batch_s.max(0.001) * 3600.0) as u64,
            "completions_fired": Value::Object(fired),
            "hostile_completions_fired": Value::Object(hostile),
            "at_rest_faults_applied": Value::Object(at_rest),
            "short_or_interrupted_inside_small_field_reads": agg.split_small,
            "probes": Value::Object(probes),
            "leak_checks": agg.leak_checks,
            "largest_single_allocation_request_bytes": agg.max_request,
            "largest_live_growth_in_one_operation_bytes": agg.peak_growth,
            "known_findings_met": known_json,
            "components": {
                "real": ["physis (rebuilt from /repo working tree, feature verif_sim)", "binrw", "zlib-rs inflate", "std read_exact/write_all/read_to_end/BufWriter", "glibc malloc (observed by interposer)", "worker process, 8 MiB stack"],
                "stub": ["std::fs -> SimFs (in-memory POSIX model in /verif/sim/src/simfs.rs)"],
                "model": props::models(prop),
            },
            "exhaustive": false
        },
        "assumptions": props::assumptions(prop),
        "wall_s": wall,
        "violations": violations
    });
    let dir = root().join("evidence");
    std::fs::create_dir_all(&dir).ok();
    let path = dir.join(format!("{}.json", prop));
    std::fs::write(&path, serde_json::to_string_pretty(&ev).unwrap()).expect("HARNESS: write evidence");
}

fn sample_of(d: &Doc) -> Value {
    let v = serde_json::to_value(d).unwrap();
    let s = v.to_string();
    if s.len() > 6000 {
        json!({"seed": d.seed, "cfg": format!("{:?}", d.cfg), "benign": d.benign, "io_faults": d.io_faults, "body_abridged": format!("{}...", &s[..6000.min(s.len())])})
    } else {
        v
    }
}

/// `sim replay <file>`: re-executes the stored document in a fresh worker; exit 1 (and the
/// VIOLATION line) iff the same signature fails again.
pub fn replay(path: &str) -> i32 {
    let text = match std::fs::read_to_string(path) {
        Ok(t) => t,
        Err(e) => {
            eprintln!("HARNESS: cannot read {}: {}", path, e);
            return 2;
        }
    };
    let rf: ReplayFile = match serde_json::from_str(&text) {
        Ok(r) => r,
        Err(e) => {
            eprintln!("HARNESS: {} is not a replay file: {}", path, e);
            return 2;
        }
    };
    let mut w = Worker::spawn(&rf.property, rf.tier);
    for line in &rf.history {
        let _ = w.request(line, 0);
    }
    if !rf.history.is_empty() {
        println!("replay: ran {} earlier scenario(s) in the same process first", rf.history.len());
    }
    let r = match &rf.doc {
        Some(d) => w.run_doc(d, true),
        None => w.request(&format!("TG {}", rf.original_seed), rf.original_seed),
    };
    for l in &r.trace {
        println!("  {}", l);
    }
    match &r.violation {
        Some(v) => {
            println!("replay: {}", v.msg);
            println!("replay: signature {}", v.sig);
            let same = v.sig == rf.signature;
            let same_log = r.log_hash == rf.log_hash && r.sched_hash == rf.sched_hash;
            println!(
                "replay: signature {} the recorded one; event-log hash {}",
                if same { "equals" } else { "DIFFERS from" },
                if same_log { "identical" } else { "differs" }
            );
            println!("VIOLATION property={} replay={}", rf.property, path);
            1
        }
        None => {
            println!("replay: no violation (recorded: {})", rf.signature);
            0
        }
    }
}
