mod alloc;
mod evidence;
mod formats;
mod harness;
mod monitor;
mod props;
mod rng;
mod selftest;
mod shrink;
mod simfs;
mod supervisor;

use harness::{RunResult, Tier};
use std::io::{BufRead, Write};
use std::sync::atomic::{AtomicBool, Ordering};

pub static MARKERS: AtomicBool = AtomicBool::new(false);

fn usage() -> ! {
    eprintln!(
        "usage: sim run <PROP> --tier quick|thorough [--runs N] [--workers N] [--seed N]\n       sim replay <file>\n       sim gen <PROP> <seed> [quick|thorough]\n       sim selftest determinism|fidelity|models [PROP]\n       sim worker <PROP> <tier>   (internal)"
    );
    std::process::exit(2);
}

fn parse_tier(s: &str) -> Tier {
    match s {
        "quick" => Tier::Quick,
        "thorough" => Tier::Thorough,
        _ => usage(),
    }
}

fn worker_main(prop: &str, tier: Tier) {
    monitor::install_hook();
    let stdin = std::io::stdin();
    let stdout = std::io::stdout();
    let mut directed: Option<Vec<props::Doc>> = None;
    for line in stdin.lock().lines() {
        let line = match line {
            Ok(l) => l,
            Err(_) => break,
        };
        let (cmd, arg) = match line.split_once(' ') {
            Some((c, a)) => (c.to_string(), a.to_string()),
            None => (line.clone(), String::new()),
        };
        if cmd == "Q" {
            break;
        }
        let mut trace = false;
        let mut base = cmd.as_str();
        loop {
            if let Some(rest) = base.strip_prefix('M') {
                MARKERS.store(true, Ordering::Relaxed);
                base = rest;
            } else if let Some(rest) = base.strip_prefix('T') {
                trace = true;
                base = rest;
            } else {
                break;
            }
        }
        let doc = match base {
            "G" => props::generate(prop, arg.parse().expect("HARNESS: seed"), tier),
            "X" => {
                let d = directed.get_or_insert_with(|| props::directed(prop));
                d[arg.parse::<usize>().expect("HARNESS: idx")].clone()
            }
            "D" => serde_json::from_str(&arg).expect("HARNESS: doc"),
            "P" => {
                // generate only
                let doc = props::generate(prop, arg.parse().expect("HARNESS: seed"), tier);
                let mut r = RunResult::default();
                r.trace = vec![serde_json::to_string(&doc).unwrap()];
                let mut out = stdout.lock();
                writeln!(out, "R {}", serde_json::to_string(&r).unwrap()).ok();
                out.flush().ok();
                continue;
            }
            _ => {
                println!("HARNESS: unknown worker command {}", cmd);
                std::process::exit(2);
            }
        };
        let mut r = props::run_doc(&doc, trace);
        if r.violation.is_some() && !trace {
            // hand the document back so that the supervisor can minimise it
            r.trace = vec![serde_json::to_string(&doc).unwrap()];
        }
        let mut out = stdout.lock();
        writeln!(out, "R {}", serde_json::to_string(&r).unwrap()).ok();
        out.flush().ok();
    }
}

fn main() {
    let args: Vec<String> = std::env::args().collect();
    if args.len() < 2 {
        usage();
    }
    match args[1].as_str() {
        "worker" => {
            if args.len() < 4 {
                usage();
            }
            worker_main(&args[2], parse_tier(&args[3]));
        }
        "run" => {
            if args.len() < 3 {
                usage();
            }
            let prop = args[2].clone();
            let mut tier = Tier::Quick;
            let mut runs: Option<u64> = None;
            let mut workers: usize = std::thread::available_parallelism().map(|n| n.get()).unwrap_or(4);
            let mut seed: u64 = std::env::var("VERIF_SEED").ok().and_then(|s| s.parse().ok()).unwrap_or(1);
            if let Ok(t) = std::env::var("VERIF_TIER") {
                if t == "thorough" || t == "quick" {
                    tier = parse_tier(&t);
                }
            }
            let mut i = 3;
            while i < args.len() {
                match args[i].as_str() {
                    "--tier" => {
                        tier = parse_tier(&args[i + 1]);
                        i += 2;
                    }
                    "--runs" => {
                        runs = args[i + 1].parse().ok();
                        i += 2;
                    }
                    "--workers" => {
                        workers = args[i + 1].parse().unwrap_or(workers);
                        i += 2;
                    }
                    "--seed" => {
                        seed = args[i + 1].parse().unwrap_or(seed);
                        i += 2;
                    }
                    _ => usage(),
                }
            }
            std::process::exit(evidence::run_check(&prop, tier, seed, runs, workers));
        }
        "replay" => {
            if args.len() < 3 {
                usage();
            }
            std::process::exit(evidence::replay(&args[2]));
        }
        "gen" => {
            if args.len() < 4 {
                usage();
            }
            let tier = if args.len() > 4 { parse_tier(&args[4]) } else { Tier::Quick };
            monitor::install_hook();
            let doc = props::generate(&args[2], args[3].parse().expect("seed"), tier);
            println!("{}", serde_json::to_string_pretty(&doc).unwrap());
        }
        "exec" => {
            // run one seed in this process with a trace (debugging aid)
            monitor::install_hook();
            monitor::set_quiet(false);
            let tier = if args.len() > 4 { parse_tier(&args[4]) } else { Tier::Quick };
            let doc = props::generate(&args[2], args[3].parse().expect("seed"), tier);
            let r = props::run_doc(&doc, true);
            for l in &r.trace {
                println!("{}", l);
            }
            println!("{:?}", r.violation);
        }
        "selftest" => {
            if args.len() < 3 {
                usage();
            }
            std::process::exit(selftest::run(&args[2], args.get(3).map(|s| s.as_str())));
        }
        _ => usage(),
    }
}
