//! SplitMix64 -> xoshiro256** generator. No external crate so that a seed means the same
//! execution for ever.

#[derive(Clone, Debug)]
pub struct Rng {
    s: [u64; 4],
}

fn splitmix(x: &mut u64) -> u64 {
    *x = x.wrapping_add(0x9E3779B97F4A7C15);
    let mut z = *x;
    z = (z ^ (z >> 30)).wrapping_mul(0xBF58476D1CE4E5B9);
    z = (z ^ (z >> 27)).wrapping_mul(0x94D049BB133111EB);
    z ^ (z >> 31)
}

impl Rng {
    pub fn new(seed: u64) -> Rng {
        let mut x = seed;
        let s = [
            splitmix(&mut x),
            splitmix(&mut x),
            splitmix(&mut x),
            splitmix(&mut x),
        ];
        Rng { s }
    }

    /// Independent stream derived from a seed and a label.
    pub fn derive(seed: u64, label: u64) -> Rng {
        let mut x = seed ^ label.wrapping_mul(0xD6E8FEB86659FD93);
        let a = splitmix(&mut x);
        Rng::new(a ^ label.rotate_left(17))
    }

    pub fn next_u64(&mut self) -> u64 {
        let result = self.s[1].wrapping_mul(5).rotate_left(7).wrapping_mul(9);
        let t = self.s[1] << 17;
        self.s[2] ^= self.s[0];
        self.s[3] ^= self.s[1];
        self.s[1] ^= self.s[2];
        self.s[0] ^= self.s[3];
        self.s[2] ^= t;
        self.s[3] = self.s[3].rotate_left(45);
        result
    }

    pub fn next_u32(&mut self) -> u32 {
        (self.next_u64() >> 32) as u32
    }

    /// Uniform in 0..n (n > 0).
    pub fn below(&mut self, n: u64) -> u64 {
        debug_assert!(n > 0);
        // multiply-shift; the tiny bias is irrelevant here
        ((self.next_u64() as u128 * n as u128) >> 64) as u64
    }

    /// Uniform in lo..=hi.
    pub fn range(&mut self, lo: u64, hi: u64) -> u64 {
        lo + self.below(hi - lo + 1)
    }

    pub fn usize_below(&mut self, n: usize) -> usize {
        self.below(n as u64) as usize
    }

    /// True with probability num/den.
    pub fn chance(&mut self, num: u64, den: u64) -> bool {
        self.below(den) < num
    }

    pub fn pick<'a, T>(&mut self, xs: &'a [T]) -> &'a T {
        &xs[self.usize_below(xs.len())]
    }

    pub fn shuffle<T>(&mut self, xs: &mut [T]) {
        for i in (1..xs.len()).rev() {
            let j = self.usize_below(i + 1);
            xs.swap(i, j);
        }
    }

    pub fn fill(&mut self, buf: &mut [u8]) {
        for chunk in buf.chunks_mut(8) {
            let v = self.next_u64().to_le_bytes();
            chunk.copy_from_slice(&v[..chunk.len()]);
        }
    }

    /// Log-distributed size in 0..=max.
    pub fn log_size(&mut self, max: u64) -> u64 {
        if max == 0 {
            return 0;
        }
        let bits = 64 - max.leading_zeros() as u64;
        let b = self.below(bits + 1);
        if b == 0 {
            return 0;
        }
        let hi = (1u64 << b).min(max + 1);
        let lo = 1u64 << (b - 1);
        if lo >= hi {
            return max;
        }
        self.range(lo, hi - 1).min(max)
    }
}

/// Deterministic content: `len` bytes from fill seed. Kind 0 = random, 1 = compressible text-like,
/// 2 = constant run, 3 = counter pattern.
pub fn fill_bytes(len: usize, fill: u64) -> Vec<u8> {
    let mut out = vec![0u8; len];
    let mut r = Rng::new(fill);
    match fill % 4 {
        0 => r.fill(&mut out),
        1 => {
            // repetitive words: compresses with back-references
            const WORDS: [&[u8]; 6] = [b"chara/", b"equipment/", b"e0001", b".mdl", b"\0\0\0\0", b"texture"];
            let mut i = 0;
            while i < len {
                let w = WORDS[r.usize_below(WORDS.len())];
                let n = w.len().min(len - i);
                out[i..i + n].copy_from_slice(&w[..n]);
                i += n;
            }
        }
        2 => {
            let b = (fill >> 8) as u8 | 1;
            out.iter_mut().for_each(|x| *x = b);
        }
        _ => {
            let start = (fill >> 8) as u32;
            for (i, x) in out.iter_mut().enumerate() {
                *x = ((start as usize + i) * 7 % 251) as u8 + 1;
            }
        }
    }
    out
}

pub fn fnv1a(h: u64, bytes: &[u8]) -> u64 {
    let mut h = h;
    for b in bytes {
        h ^= *b as u64;
        h = h.wrapping_mul(0x100000001b3);
    }
    h
}

pub const FNV_INIT: u64 = 0xcbf29ce484222325;
