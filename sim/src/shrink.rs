//! Delta-debugging minimiser over scenario documents. A candidate is kept only if it still fails
//! with the same signature.

use crate::props::{self, Doc};
use crate::supervisor::Worker;
use std::time::{Duration, Instant};

pub struct Shrunk {
    pub doc: Doc,
    pub steps: u32,
    pub tried: u32,
}

pub fn minimise(w: &mut Worker, doc: &Doc, sig: &str, budget: Duration) -> Shrunk {
    let start = Instant::now();
    let mut cur = doc.clone();
    let mut steps = 0;
    let mut tried = 0;
    'outer: loop {
        let cands = props::shrink_candidates(&cur);
        for c in cands {
            if start.elapsed() > budget {
                break 'outer;
            }
            tried += 1;
            let r = w.run_doc(&c, false);
            if r.violation.as_ref().map(|v| v.sig.as_str()) == Some(sig) {
                cur = c;
                steps += 1;
                continue 'outer;
            }
        }
        break;
    }
    Shrunk { doc: cur, steps, tried }
}
