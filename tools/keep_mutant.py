#!/usr/bin/env python3
"""usage: tools/keep_mutant.py <PROPERTY> <round> <i> <worktree> "<VERIFY line>" [--features] [--check-property Cxx]
Stores a confirmed change of a sub-agent as /verif/seeded/<PROPERTY>-r<round>m<i>/ (patch.diff,
demo.rs, notes.md, meta.json). The VERIFY line is what tools/verify_mutant.sh printed."""
import json, os, re, shutil, subprocess, sys

prop, rnd, i, wt, verify = sys.argv[1:6]
rest = sys.argv[6:]
features = "--features" in rest
check_prop = rest[rest.index("--check-property") + 1] if "--check-property" in rest else None
assert "suite_with_change=pass" in verify and "demo_with_change=fail" in verify and "demo_without_change=pass" in verify, verify
mid = f"{prop}-r{rnd}m{i}"
d = f"/verif/seeded/{mid}"
os.makedirs(d, exist_ok=True)
shutil.copy(f"{wt}/mutants/m{i}.diff", f"{d}/patch.diff")
shutil.copy(f"{wt}/mutants/m{i}_demo.rs", f"{d}/demo.rs")
shutil.copy(f"{wt}/mutants/m{i}.md", f"{d}/notes.md")
notes = open(f"{d}/notes.md").read()
m = re.search(r"(?is)(needed to manifest|what is needed|needs?)\W*[:\-–—]?\s*(.+?)(\n\s*\n|\Z)", notes)
needs = " ".join((m.group(2) if m else notes[-600:]).split())
head = subprocess.run(["git", "-C", "/repo", "rev-parse", "--short", "HEAD"], capture_output=True, text=True).stdout.strip()
ordinal = {"8": "eighth", "9": "ninth", "10": "tenth"}.get(rnd, rnd + "th")
meta = {
    "id": mid,
    "property": prop,
    "origin": f"independent sub-agent ({ordinal} round) given only the property text, a scratch worktree of /repo at the then current HEAD ({head}) and the titles of the changes of earlier rounds to avoid",
    "needs_to_manifest": needs,
    "demo_command": f"cargo test --offline {'--features verif_sim ' if features else ''}--test m{i}_demo (demo.rs copied to tests/m{i}_demo.rs)",
    "confirmed_by_me": {
        "command": ('FEATURES="--features verif_sim" ' if features else '') + f"tools/verify_mutant.sh <scratch worktree> {i}",
        "result": verify,
    },
    "checked_with": f"tools/try_mutant.sh {check_prop or prop} /verif/seeded/{mid}/patch.diff quick",
}
if check_prop:
    meta["check_property"] = check_prop
json.dump(meta, open(f"{d}/meta.json", "w"), indent=1)
print(mid, "kept; needs:", needs[:200])
