#!/usr/bin/env python3
"""usage: tools/merge_results.py <new results file>...
Merges lines '<id> RESULT: ...' of the given files into seeded/RESULTS.txt (a newer line for an id
replaces the older one; ids keep their alphabetical order)."""
import sys, re
lines = {}
for f in ['/verif/seeded/RESULTS.txt'] + sys.argv[1:]:
    try:
        for l in open(f):
            m = re.match(r'^(C\d\d-\S+) RESULT: ', l)
            if m:
                lines[m.group(1)] = l.rstrip('\n')
    except FileNotFoundError:
        pass
def key(i):
    m = re.match(r'(C\d\d)-(?:r(\d+))?m(\d+)', i)
    return (m.group(1), int(m.group(2) or 1), int(m.group(3)))
open('/verif/seeded/RESULTS.txt', 'w').write('\n'.join(lines[k] for k in sorted(lines, key=key)) + '\n')
c = sum(1 for v in lines.values() if 'RESULT: CAUGHT' in v)
print(f'{c} of {len(lines)} caught')
