#!/bin/sh
# usage: tools/sweep.sh <tier> <seed>... ; runs every registered check at each base seed and prints
# the verdict lines. Used to look for alarms on the unchanged tree under seeds other than 1.
TIER="$1"; shift
cd "$(dirname "$0")/.." || exit 2
for s in "$@"; do
  for p in C01 C02 C03 C04 C17 C18; do
    VERIF_SEED=$s ./check $p $TIER > /tmp/sweep.$$.log 2>&1
    rc=$?
    echo "== $p tier=$TIER VERIF_SEED=$s exit=$rc"
    grep -E "VIOLATION|HARNESS|signature|evaluations" /tmp/sweep.$$.log | cut -c1-220
  done
done
rm -f /tmp/sweep.$$.log
