#!/bin/sh
# usage: tools/sweep.sh <tier> <seed>... ; runs every registered check at each base seed and prints
# the verdict lines. Used to look for alarms on the unchanged tree under seeds other than 1.
TIER="$1"; shift
cd "$(dirname "$0")/.." || exit 2
for s in "$@"; do
  for p in C01 C02 C03 C04 C17 C18; do
    echo "== $p tier=$TIER VERIF_SEED=$s"
    VERIF_SEED=$s ./check $p $TIER | grep -E "VERIF_SEED|VIOLATION|HARNESS|signature|evaluations" | cut -c1-220
    echo "exit=$?"
  done
done
