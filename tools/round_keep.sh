#!/bin/sh
# usage: tools/round_keep.sh <PROPERTY> <round> <worktree>
# verifies every mutants/m<i>.diff of a sub-agent's worktree (tools/verify_mutant.sh) and keeps the
# confirmed ones under /verif/seeded/ (tools/keep_mutant.py). Does NOT remove the worktree.
P="$1"; R="$2"; WT="$3"
export TMPDIR="$WT/target/tmp"; mkdir -p "$TMPDIR"
for d in "$WT"/mutants/m*.diff; do
  i=$(basename "$d" .diff | sed 's/^m//')
  FEAT=""
  if grep -q "verif_sim" "$WT/mutants/m$i.md" "$WT/mutants/m${i}_demo.rs" 2>/dev/null; then FEAT="--features verif_sim"; fi
  line=$(FEATURES="$FEAT" /verif/tools/verify_mutant.sh "$WT" "$i" 2>&1 | grep "^VERIFY" | tail -1)
  echo "$line"
  case "$line" in
    *suite_with_change=pass*demo_with_change=fail*demo_without_change=pass*)
      python3 /verif/tools/keep_mutant.py "$P" "$R" "$i" "$WT" "$line" ${FEAT:+--features} ;;
    *) echo "NOT KEPT: $P m$i" ;;
  esac
done
