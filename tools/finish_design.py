#!/usr/bin/env python3
"""Regenerates the data-driven parts of DESIGN.md (sections 11 and 12, number of fix commits)
from seeded/RESULTS.txt, seeded/*/meta.json, evidence/*.json and thorough_results.json."""
import json, glob, os, re, subprocess
os.chdir('/verif')
s = open('DESIGN.md').read()

def between(tag, body):
    global s
    a, b = '<!-- BEGIN %s -->' % tag, '<!-- END %s -->' % tag
    i, j = s.index(a), s.index(b)
    s = s[:i + len(a)] + '\n' + body + '\n' + s[j:]

nfix = subprocess.run("git -C /repo log --format=%h --grep '^fix:' | wc -l", shell=True, capture_output=True, text=True).stdout.strip()
s = re.sub(r'<!-- NFIX -->.*?<!-- /NFIX -->', '<!-- NFIX -->%s<!-- /NFIX -->' % nfix, s)

# ---- section 11
res = {}
if os.path.exists('seeded/RESULTS.txt'):
    for l in open('seeded/RESULTS.txt'):
        p = l.split()
        if len(p) >= 3:
            rest = p[3:]
            chk = p[0].split('-')[0]
            if rest and rest[0].startswith('['):
                chk = rest[0].strip('[]')
                rest = rest[1:]
            res[p[0]] = (p[2], ' '.join(rest), chk)
rows = []
for d in sorted(glob.glob('seeded/*/meta.json')):
    m = json.load(open(d))
    r = res.get(m['id'], ('not run', '', m['property']))
    sig = r[1].split(';')[0][:70]
    if not sig.startswith('C'):
        sig = ''
    verdict = r[0].lower() + ('' if r[2] == m['property'] else ' (by the %s check)' % r[2])
    rows.append('| %s | %s | %s | %s |' % (m['id'], m['needs_to_manifest'].replace('|', '\\|'), verdict, ('`%s`' % sig.replace('|', '\\|')) if sig else ''))
caught = sum(1 for r in res.values() if r[0] == 'CAUGHT')
extra = open('seeded/NOTES.md').read() if os.path.exists('seeded/NOTES.md') else ''
body = '''## 11. Sensitivity: which checks catch which seeded changes

Method. Fresh sub-agents were given **only** the text of one property and a scratch git worktree
of /repo (nothing from /verif) and asked for changes that break the property while compiling and
passing the existing suite, each with a demonstration that fails with the change and passes
without it, preferring changes that need something specific to manifest. Nine rounds of six
agents (seven in the fifth, where C18 had one agent for the archive side and one for the asset
parsers); from the second round on they were told which ideas had been used before, and that the
`verif_sim` seam of /repo may be used by a demonstration (that is how short and interrupted I/O,
directory order and I/O errors at a chosen call are demonstrated). I confirmed every change
myself in a scratch worktree (`tools/verify_mutant.sh`: applies, existing suite green, demo fails
with it, demo passes without it; the two baseline-flaky `patch::tests` were re-run until green)
before keeping it as `/verif/seeded/<id>/` (patch.diff, demo.rs, notes.md, meta.json). Each was
then run against the *quick* check of its property with `tools/try_mutant.sh` (apply to /repo,
`./check <P> quick`, restore /repo); `tools/run_seeded.sh` repeats all of them and writes
`seeded/RESULTS.txt` (`tools/run_seeded_copy.sh` does the same on a copy of /repo and of the
simulator, so that other work can go on), from which this table is generated: **%d of %d caught by
the quick check**. The rows of rounds one to seven were measured with the checks as they stood
after round seven, except the seven changes missed then, which were re-run with the final checks
(two of them are caught now), as were all of rounds eight and nine.

| id | needs, in order to manifest | quick check | first signature reported |
|---|---|---|---|
%s

%s''' % (caught, len(res), '\n'.join(rows), extra)
between('S11', body)

# ---- section 12
rows = []
th = json.load(open('thorough_results.json')) if os.path.exists('thorough_results.json') else {}
for f in sorted(glob.glob('evidence/*.json')):
    e = json.load(open(f)); c = e['coverage']
    t = th.get(e['property_id'], {})
    rows.append('| %s | %s | %d | %.0f s | %d | %d | %d | %d | %s |' % (
        e['property_id'], e['tier'], c['evaluations'], e['wall_s'], c['distinct_nontrivial'], c['distinct_schedules'],
        c['abstract_states'], c['simulated_io_steps'],
        ('%d runs in %.0f s, %d violations' % (t['evaluations'], t['wall_s'], t['violations'])) if t else 'n/a'))
body = '''## 12. Measured cost (replaces the estimates of §3.9)

16 workers; wall time includes minimisation and evidence writing but not the build (≈25 s for
physis + harness after a change to /repo, ≈1 s otherwise). Figures of the evidence files
committed with this document; the last column is the most recent thorough run of each check on
the unchanged tree.

| id | tier of the committed evidence | evaluations | wall | distinct non-trivial | distinct schedules | abstract states | simulated I/O steps | thorough |
|---|---|---|---|---|---|---|---|---|
%s
''' % '\n'.join(rows)
if os.path.exists('sweep_results.md'):
    body += '\n' + open('sweep_results.md').read()
between('S12', body)
open('DESIGN.md', 'w').write(s)
print('DESIGN.md regenerated: %s fix commits, %d/%d seeded changes caught' % (nfix, caught, len(res)))
