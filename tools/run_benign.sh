#!/bin/sh
# Applies every behaviour-preserving change under seeded/benign to /repo, runs all six quick checks,
# restores /repo, and writes seeded/benign/RESULTS.txt. Every line must end in exit=0.
cd /verif || exit 2
OUT=seeded/benign/RESULTS.txt
: > $OUT
for d in seeded/benign/*.diff; do
  id=$(basename $d .diff)
  if ! git -C /repo apply --check /verif/$d 2>/dev/null; then echo "$id does not apply" | tee -a $OUT; continue; fi
  git -C /repo apply /verif/$d
  for p in C01 C02 C03 C04 C17 C18; do
    ./check $p quick > /tmp/run_benign.$$.log 2>&1
    rc=$?
    echo "$id $p exit=$rc $(grep -E 'VIOLATION|HARNESS|violation signature' /tmp/run_benign.$$.log | head -2 | cut -c1-200 | tr '\n' ';')" | tee -a $OUT
  done
  git -C /repo checkout -- .
done
rm -f /tmp/run_benign.$$.log
./check build > /dev/null 2>&1
git -C /repo status --short | head -3
