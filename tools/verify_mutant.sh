#!/bin/sh
# usage: tools/verify_mutant.sh <worktree> <i>   (expects <worktree>/mutants/m<i>.diff and m<i>_demo.rs)
# confirms: compiles, existing suite passes with the change, demo fails with it, demo passes without it
WT="$1"; I="$2"
cd "$WT" || exit 2
git checkout -q -- . ; rm -f tests/m${I}_demo.rs
git apply mutants/m$I.diff || { echo "m$I: diff does not apply"; exit 2; }
cp mutants/m${I}_demo.rs tests/m${I}_demo.rs
SUITE=fail
for try in 1 2 3; do
  if cargo test --offline --lib --doc >/tmp/vm.$$.log 2>&1 || { cargo test --offline --lib -- --test-threads=1 >/tmp/vm.$$.log 2>&1 && cargo test --offline --doc >>/tmp/vm.$$.log 2>&1; }; then SUITE=pass; break; fi
done
cargo test --offline --lib > /tmp/vm.$$.lib.log 2>&1; LIBN=$(grep -E "^test result" /tmp/vm.$$.lib.log | head -1)
if timeout 600 cargo test --offline $FEATURES --test m${I}_demo >/tmp/vm.$$.demo1.log 2>&1; then WITH=pass; else WITH=fail; fi
git checkout -q -- .
if timeout 600 cargo test --offline $FEATURES --test m${I}_demo >/tmp/vm.$$.demo2.log 2>&1; then WITHOUT=pass; else WITHOUT=fail; fi
rm -f tests/m${I}_demo.rs
echo "VERIFY $WT m$I: suite_with_change=$SUITE ($LIBN) demo_with_change=$WITH demo_without_change=$WITHOUT"
rm -f /tmp/vm.$$.*
