#!/bin/sh
# usage: tools/try_mutant.sh <PROPERTY> <patch.diff> [quick|thorough]
# applies the patch to /repo, runs the check, restores /repo. Prints CAUGHT / MISSED.
P="$1"; D="$2"; T="${3:-quick}"
cd /repo || exit 2
if ! git apply --check "$D" 2>/dev/null; then echo "patch does not apply: $D"; exit 2; fi
git apply "$D"
cd /verif
./check "$P" "$T" > /tmp/try_mutant.$$.log 2>&1
RC=$?
git -C /repo checkout -- . 
# the simulator binary was built from the changed tree: rebuild it from the restored one, so that
# a later direct use of sim/target/release/sim does not run the change (NO_REBUILD=1 to skip)
if [ -z "$NO_REBUILD" ]; then ./check build > /dev/null 2>&1; fi
grep -E "VIOLATION|KNOWN-FINDING|HARNESS|violation signature|^sim:   " /tmp/try_mutant.$$.log | cut -c1-900 | head -12
tail -1 /tmp/try_mutant.$$.log | cut -c1-200
rm -f /tmp/try_mutant.$$.log
if [ $RC -eq 1 ]; then echo "RESULT: CAUGHT ($P, $D)"; elif [ $RC -eq 0 ]; then echo "RESULT: MISSED ($P, $D)"; else echo "RESULT: HARNESS ERROR rc=$RC ($P, $D)"; fi
