#!/bin/sh
# usage: tools/run_seeded_copy.sh <scratch dir> [id pattern]
# Like run_seeded.sh, but on a COPY: a git worktree of /repo's HEAD and a copy of /verif (simulator
# rebuilt against that worktree) under <scratch dir>, so that /repo and /verif stay untouched and
# other work can go on meanwhile. Writes <scratch dir>/RESULTS.txt in the format of seeded/RESULTS.txt.
# Results are informational (which check catches which change); evidence is never taken from here.
S="${1:-/tmp/seedrun}"; PAT="${2:-C}"
rm -rf "$S"; git -C /repo worktree prune; mkdir -p "$S"
git -C /repo worktree add --detach "$S/repo" HEAD >/dev/null 2>&1 || exit 2
rsync -a --exclude target --exclude replays --exclude evidence --exclude .git /verif/ "$S/verif/"
mkdir -p "$S/verif/evidence" "$S/verif/replays"
grep -rl '/repo' "$S/verif/sim/src" "$S/verif/sim/Cargo.toml" | xargs sed -i "s|\"/repo|\"$S/repo|g"
export CARGO_NET_OFFLINE=true VERIF_ROOT="$S/verif"
(cd "$S/verif/sim" && cargo build --release --offline >/dev/null 2>&1) || { echo "build failed"; exit 2; }
OUT="$S/RESULTS.txt"; : > "$OUT"
for d in /verif/seeded/${PAT}*/; do
  id=$(basename $d)
  [ -f "$d/patch.diff" ] || continue
  p=$(echo $id | cut -d- -f1)
  cp=$(sed -n 's/.*"check_property": *"\([A-Z0-9]*\)".*/\1/p' $d/meta.json)
  if [ -n "$cp" ]; then p=$cp; fi
  if ! git -C "$S/repo" apply "$d/patch.diff" 2>/dev/null; then echo "$id RESULT: DOES-NOT-APPLY [$p]" | tee -a "$OUT"; git -C "$S/repo" checkout -- .; continue; fi
  if (cd "$S/verif/sim" && cargo build --release --offline >"$S/build.log" 2>&1); then
    r=$("$S/verif/sim/target/release/sim" run $p --tier quick 2>&1); rc=$?
  else r="build failed"; rc=2; fi
  git -C "$S/repo" checkout -- .
  case $rc in 1) res="RESULT: CAUGHT";; 0) res="RESULT: MISSED";; *) res="RESULT: HARNESS-ERROR-rc$rc";; esac
  sigs=$(echo "$r" | grep "violation signature" | sed 's/.*signature: //' | head -3 | tr '\n' ';')
  hits=$(echo "$r" | grep -o "\[[0-9]* of [0-9]* runs, first seed [0-9]*\]" | sed 's/\[\([0-9]*\) of .*first seed \([0-9]*\)\]/\1@\2/' | tr '\n' ',' )
  echo "$id $res [$p] $sigs hits=$hits" | tee -a "$OUT"
done
git -C /repo worktree remove --force "$S/repo"; rm -rf "$S/verif"
echo ALL-DONE >> "$OUT"
