#!/bin/sh
# Runs every seeded change under /verif/seeded against the quick check of its property
# (applies the patch to /repo, runs the check, restores /repo) and writes seeded/RESULTS.txt.
cd /verif || exit 2
OUT=seeded/RESULTS.txt
: > $OUT
for d in seeded/C*/; do
  id=$(basename $d)
  p=$(echo $id | cut -d- -f1)
  # a change that breaks another property's clause is run against that property's check
  cp=$(sed -n 's/.*"check_property": *"\([A-Z0-9]*\)".*/\1/p' $d/meta.json)
  if [ -n "$cp" ]; then p=$cp; fi
  r=$(NO_REBUILD=1 ./tools/try_mutant.sh $p /verif/$d/patch.diff quick 2>&1)
  res=$(echo "$r" | grep RESULT | sed 's/ (.*//')
  sigs=$(echo "$r" | grep "violation signature" | sed 's/.*signature: //' | head -3 | tr '\n' ';')
  # how many runs met the most frequent violation, and the total over all signatures (a change met by
  # one or two seeded runs only is caught by luck; one met by a directed scenario is caught always)
  hits=$(echo "$r" | grep -o "\[[0-9]* of [0-9]* runs, first seed [0-9]*\]" | sed 's/\[\([0-9]*\) of .*first seed \([0-9]*\)\]/\1@\2/' | tr '\n' ',' )
  echo "$id $res [$p] $sigs hits=$hits" | tee -a $OUT
done
./check build > /dev/null 2>&1
git -C /repo status --short | head -3
